//go:build verif

package adjRIBOut

// C08 while the session is being established: the Adj-RIB-Out is registered
// with a Loc-RIB that already holds routes, and its initial dump is parked by
// the harness (the recording client, where the update sender sits, blocks in
// its first announcement) while another goroutine applies one generated
// Loc-RIB change. When both have returned - a quiescent point - the
// Adj-RIB-Out must equal the export view of the Loc-RIB. Whether the change
// waits for the dump (bio-rd: the Loc-RIB keeps its read lock for the whole
// dump) or runs concurrently is not judged.

import (
	"sync"
	"testing"
	"time"

	bnet "github.com/bio-routing/bio-rd/net"
	"github.com/bio-routing/bio-rd/route"
	"pgregory.net/rapid"
	kit "verifkit"
)

func TestVerifC08RegisterDuringChange(t *testing.T) {
	rec := kit.NewRecorder(t, "C08", c08Rule+" [registration mode: 2-8 preload steps, then RegisterWithOptions with the initial dump parked in the client's first announcement while one more generated Loc-RIB change is applied by another goroutine; judged once both returned. Non-trivial: the gate was reached]")
	unjudged := 0
	rapid.Check(t, func(t *rapid.T) {
		c := rec.Case()
		defer c.Done()
		s := dxGenSession(t, "s", false)
		bits, pfxs := dxGenUniverse(t, rapid.IntRange(2, 4).Draw(t, "npfx"))
		pol := dxGenPolicy(t, "pol", len(pfxs), s)
		rig := newC08Rig(t, s, pol, bits, pfxs)
		h := newDxHist(t, len(pfxs), dxGenOpts{Extras: true})
		c.Logf("session %v", s)
		c.Logf("policy %v", pol)
		for k, n := 0, rapid.IntRange(2, 8).Draw(t, "preload"); k < n; k++ {
			for _, op := range h.next() {
				c.Logf("preload %s", op.String(bits))
				if op.Add {
					rig.add(op.Pfx, op.Attrs)
				} else {
					rig.remove(op.Pfx, op.Attrs, op.SameObj)
				}
			}
		}
		change := h.next()
		var once sync.Once
		reached, release := make(chan struct{}), make(chan struct{})
		rig.rec.hook = func(add bool, _ *bnet.Prefix, _ *route.Path) {
			once.Do(func() {
				close(reached)
				<-release
			})
		}
		regDone, chgDone := make(chan string, 1), make(chan string, 1)
		// (not rig.attach(): it also reads the harness model, which the other goroutine updates)
		go func() {
			regDone <- dxGuard(func() { rig.rib.RegisterWithOptions(rig.aro, rig.s.clientOptions()) })
		}()
		gated := false
		select {
		case <-reached:
			gated = true
		case m := <-regDone:
			regDone <- m       // nothing was announced during the dump: plain sequential case
			once.Do(func() {}) // disarm the gate
		case <-time.After(5 * time.Second):
			unjudged++
			c.Class("unjudged")
			return
		}
		go func() {
			chgDone <- dxGuard(func() {
				for _, op := range change {
					if op.Add {
						rig.add(op.Pfx, op.Attrs)
					} else {
						rig.remove(op.Pfx, op.Attrs, op.SameObj)
					}
				}
			})
		}()
		for _, op := range change {
			c.Logf("during the initial dump: %s", op.String(bits))
		}
		if gated {
			select { // sensitivity only
			case m := <-chgDone:
				chgDone <- m
				c.Class("change_ran_during_the_dump")
			case <-time.After(5 * time.Millisecond):
				c.Class("change_waited_for_the_dump")
			}
			close(release)
		}
		var msgs []string
		for _, ch := range []chan string{regDone, chgDone} {
			select {
			case m := <-ch:
				if m != "" {
					msgs = append(msgs, m)
				}
			case <-time.After(10 * time.Second):
				unjudged++
				c.Class("unjudged")
				return
			}
		}
		if len(msgs) > 0 {
			t.Fatalf("C08/register-during-change: %v\nhistory:\n%s", msgs, c.String())
		}
		c.ClassIf(gated, "initial_dump_parked")
		c.NonTrivialIf(gated)
		rig.attached = true
		for i := range pfxs {
			rig.noteWipe(i, nil)
			rig.wiped[i] = rig.wiped[i] || s.AddPathN > 0 // any rule-excluded selected path may have wiped its siblings (listed finding)
		}
		var cm string
		if m := dxGuard(func() { cm = rig.check() }); m != "" {
			cm = m
		}
		if cm != "" && rig.sig == c08SigWipe && rec.Known(c08SigWipe) {
			c.Class("known_addpath_wipe")
			return
		}
		if cm != "" {
			t.Fatalf("C08/register-during-change: after the registration and the concurrent change both returned:\n  %s\nhistory:\n%s", cm, c.String())
		}
	})
	if unjudged > 0 {
		t.Logf("C08/register-during-change: %d cases unjudged (a real-time deadline passed)", unjudged)
	}
}

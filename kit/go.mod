module verifkit

go 1.23.0

require pgregory.net/rapid v1.3.0

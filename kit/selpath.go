package verifkit

// selpath.go — plain (bio-rd free) description of a candidate path, its
// generator over a bounded attribute domain, and the REFERENCE decision
// process of properties C02/C03 (RFC 4271 §9.1.2.2, RFC 4456 §9) written
// independently of route.BGPPath.Select. Used by C02, C03 and C34.

import (
	"fmt"
	"strings"

	"pgregory.net/rapid"
)

// SelSeg is one AS_PATH segment (AS_SET or AS_SEQUENCE).
type SelSeg struct {
	Set  bool
	ASNs []uint32
}

// SelLC is one large community.
type SelLC struct{ GA, D1, D2 uint32 }

// SelUnknown is one unknown path attribute.
type SelUnknown struct {
	Optional, Transitive, Partial bool
	Type                          uint8
	Value                         []byte
	ValueNil                      bool
}

// SelPath describes one candidate path. Static paths use NextHop only.
type SelPath struct {
	Static  bool
	NextHop Bits // L = W
	Source  Bits // peer address

	LocalPref    uint32
	MED          uint32
	BGPID        uint32
	OriginatorID uint32 // 0 = attribute absent
	Origin       uint8
	EBGP         bool
	ASPath       []SelSeg
	ClusterSet   bool // false: no CLUSTER_LIST (nil pointer); true: list present (maybe empty)
	Cluster      []uint32
	PathID       uint32

	// attributes that do not take part in the decision process
	CommsSet   bool
	Comms      []uint32
	LCommsSet  bool
	LComms     []SelLC
	Unknown    []SelUnknown
	OTC        uint32
	PostPolicy bool
	Hidden     uint8
	LTime      uint32
}

// ASLen is the AS_PATH length of RFC 4271 §9.1.2.2 a): an AS_SET counts as 1.
func (p SelPath) ASLen() int {
	n := 0
	for _, s := range p.ASPath {
		if s.Set {
			n++
		} else {
			n += len(s.ASNs)
		}
	}
	return n
}

// EffID is the BGP identifier used at step f: the ORIGINATOR_ID when the
// attribute is present (non-zero), otherwise the peer's BGP identifier
// (RFC 4456 §9).
func (p SelPath) EffID() uint32 {
	if p.OriginatorID != 0 {
		return p.OriginatorID
	}
	return p.BGPID
}

// ClusterLen is the CLUSTER_LIST length, 0 when the attribute is absent.
func (p SelPath) ClusterLen() int {
	if !p.ClusterSet {
		return 0
	}
	return len(p.Cluster)
}

func (p SelPath) String() string {
	if p.Static {
		return fmt.Sprintf("static{nh=%s}", SelAddr(p.NextHop))
	}
	var sb strings.Builder
	fmt.Fprintf(&sb, "bgp{lp=%d as=", p.LocalPref)
	for _, s := range p.ASPath {
		if s.Set {
			fmt.Fprintf(&sb, "(%v)", s.ASNs)
		} else {
			fmt.Fprintf(&sb, "%v", s.ASNs)
		}
	}
	fmt.Fprintf(&sb, " aslen=%d origin=%d med=%d ebgp=%v id=%#x orig=%#x", p.ASLen(), p.Origin, p.MED, p.EBGP, p.BGPID, p.OriginatorID)
	if p.ClusterSet {
		fmt.Fprintf(&sb, " cl=%v", p.Cluster)
	} else {
		sb.WriteString(" cl=nil")
	}
	fmt.Fprintf(&sb, " src=%s nh=%s pid=%d", SelAddr(p.Source), SelAddr(p.NextHop), p.PathID)
	if p.CommsSet {
		fmt.Fprintf(&sb, " comm=%v", p.Comms)
	}
	if p.LCommsSet {
		fmt.Fprintf(&sb, " lcomm=%v", p.LComms)
	}
	for _, u := range p.Unknown {
		fmt.Fprintf(&sb, " unk{%v %v %v %d %x nil=%v}", u.Optional, u.Transitive, u.Partial, u.Type, u.Value, u.ValueNil)
	}
	if p.OTC != 0 {
		fmt.Fprintf(&sb, " otc=%d", p.OTC)
	}
	if p.PostPolicy {
		sb.WriteString(" postpolicy")
	}
	if p.Hidden != 0 {
		fmt.Fprintf(&sb, " hidden=%d", p.Hidden)
	}
	if p.LTime != 0 {
		fmt.Fprintf(&sb, " ltime=%d", p.LTime)
	}
	sb.WriteString("}")
	return sb.String()
}

// SelAddr renders the address part (hex for IPv6 halves), independent of bio-rd.
func SelAddr(b Bits) string {
	if b.W == 32 {
		return fmt.Sprintf("%d.%d.%d.%d", b.A[0], b.A[1], b.A[2], b.A[3])
	}
	hi, lo := b.HiLo()
	return fmt.Sprintf("v6:%016x:%016x", hi, lo)
}

// Decision steps of the reference comparator.
const (
	SelStepNone    = 0 // reference does not decide (keys equal through the peer address)
	SelStepLP      = 1
	SelStepASLen   = 2
	SelStepOrigin  = 3
	SelStepMED     = 4
	SelStepEBGP    = 5
	SelStepID      = 6
	SelStepCluster = 7
	SelStepPeer    = 8
)

var selStepNames = []string{"none", "local_pref", "as_path_len", "origin", "med", "ebgp", "identifier", "cluster_list_len", "peer_address"}

// SelStepName names a step.
func SelStepName(s int) string { return selStepNames[s] }

func cmpU64(a, b uint64) int {
	if a < b {
		return -1
	}
	if a > b {
		return 1
	}
	return 0
}

// SelRefCompare is the reference decision process for two BGP paths exactly as
// the C03 statement lists it. It returns sign > 0 when a is preferred, < 0
// when b is preferred and the step that decided; (0, SelStepNone) when all
// listed steps are equal — beyond the peer address nothing is said.
// Both paths must be BGP paths.
func SelRefCompare(a, b SelPath) (sign int, step int) {
	// higher LOCAL_PREF
	if c := cmpU64(uint64(a.LocalPref), uint64(b.LocalPref)); c != 0 {
		return c, SelStepLP
	}
	// shorter AS_PATH
	if c := cmpU64(uint64(a.ASLen()), uint64(b.ASLen())); c != 0 {
		return -c, SelStepASLen
	}
	// lower ORIGIN
	if c := cmpU64(uint64(a.Origin), uint64(b.Origin)); c != 0 {
		return -c, SelStepOrigin
	}
	// lower MED, always compared
	if c := cmpU64(uint64(a.MED), uint64(b.MED)); c != 0 {
		return -c, SelStepMED
	}
	// eBGP over iBGP
	if a.EBGP != b.EBGP {
		if a.EBGP {
			return 1, SelStepEBGP
		}
		return -1, SelStepEBGP
	}
	// lowest BGP identifier, ORIGINATOR_ID in its place when present
	if c := cmpU64(uint64(a.EffID()), uint64(b.EffID())); c != 0 {
		return -c, SelStepID
	}
	// shorter CLUSTER_LIST (absent = 0)
	if c := cmpU64(uint64(a.ClusterLen()), uint64(b.ClusterLen())); c != 0 {
		return -c, SelStepCluster
	}
	// lowest peer address
	if c := CmpAddr(a.Source, b.Source); c != 0 {
		return -c, SelStepPeer
	}
	return 0, SelStepNone
}

// SelKeyEqual reports whether the decision process of the statement cannot
// distinguish a and b: same protocol and, for BGP, equal in every listed step;
// for static paths (whose only attribute is the next hop) equal next hop.
func SelKeyEqual(a, b SelPath) bool {
	if a.Static != b.Static {
		return false
	}
	if a.Static {
		return a.NextHop == b.NextHop
	}
	s, _ := SelRefCompare(a, b)
	return s == 0
}

// ECMP key of bio-rd's documented multipath rule is not part of the
// statement; the harness only compares ECMP *sets* between two insertion
// orders.

// ---------------------------------------------------------------------------
// generator

// Attribute pools: small, so that equal values (ties at a step) are frequent,
// and with values >= 2^31 so that a signed comparison is visible.
var (
	SelLPs     = []uint32{0, 100, 200, 0xffffffff}
	SelMEDs    = []uint32{0, 1, 100, 0xffffffff}
	SelOrigins = []uint8{0, 1, 2}
	SelIDs     = []uint32{1, 2, 0x0a000001, 0xc0000201, 0xffffffff}
	SelOrigIDs = []uint32{0, 0, 1, 2, 0x0a000001, 0xfffffffe}
	SelV4Addrs = []Bits{V4(0x0a000001, 32), V4(0x0a000002, 32), V4(0xc0000201, 32), V4(0xfffffffe, 32), V4(0, 32)}
	SelV6Addrs = []Bits{
		V6(0x20010db800000000, 1, 128), V6(0x20010db800000000, 2, 128),
		V6(0x20010db800000001, 1, 128), V6(0xfe80000000000000, 1, 128),
		V6(0x20010db800000000, 0xffffffffffffffff, 128),
	}
)

// SelClusters are the CLUSTER_LIST variants (index 0 = absent, 1 = present but empty).
var SelClusters = [][]uint32{nil, {}, {1}, {2}, {1, 2}, {3, 2, 1}}

// SelASPaths are the AS_PATH variants of the enumerated domain.
var SelASPaths = [][]SelSeg{
	{},
	{{ASNs: []uint32{65001}}},
	{{ASNs: []uint32{65002}}},
	{{ASNs: []uint32{65001, 65002}}},
	{{Set: true, ASNs: []uint32{65001, 65002, 65003}}},
	{{ASNs: []uint32{65001}}, {Set: true, ASNs: []uint32{65002, 65003}}},
	{{ASNs: []uint32{65001, 65002, 65003}}},
}

// SelDomain fixes the address family of a case (peer addresses of one
// family are compared; bio-rd's IP.Compare does not look at the family).
type SelDomain struct {
	W     int
	Addrs []Bits
}

// GenSelDomain draws the family of the case.
func GenSelDomain(t *rapid.T) SelDomain {
	if rapid.Bool().Draw(t, "v6") {
		return SelDomain{W: 128, Addrs: SelV6Addrs}
	}
	return SelDomain{W: 32, Addrs: SelV4Addrs}
}

// GenSelDomainMaybeMixed is GenSelDomain, except that in one case out of three
// peer addresses and next hops of both families occur side by side (an IPv4
// prefix learned from one router over an IPv4 and an IPv6 session). Only for
// checks that do not need an order between addresses of different families
// (C02's algebraic laws); the reference comparator is not consulted for such
// pairs beyond equality.
func GenSelDomainMaybeMixed(t *rapid.T) SelDomain {
	if rapid.IntRange(0, 2).Draw(t, "mixed_families") == 0 {
		return SelDomain{W: 0, Addrs: append(append([]Bits{}, SelV4Addrs...), SelV6Addrs...)}
	}
	return GenSelDomain(t)
}

func (d SelDomain) genAddr(t *rapid.T, label string) Bits {
	return rapid.SampledFrom(d.Addrs).Draw(t, label)
}

func genASPath(t *rapid.T, label string) []SelSeg {
	if rapid.Bool().Draw(t, label+"_pool") {
		return rapid.SampledFrom(SelASPaths).Draw(t, label)
	}
	n := rapid.IntRange(0, 3).Draw(t, label+"_nseg")
	out := make([]SelSeg, 0, n)
	for i := 0; i < n; i++ {
		s := SelSeg{Set: rapid.IntRange(0, 3).Draw(t, label+"_set") == 0}
		k := rapid.IntRange(1, 3).Draw(t, label+"_nasn")
		for j := 0; j < k; j++ {
			s.ASNs = append(s.ASNs, uint32(rapid.SampledFrom([]int{1, 65001, 65002, 4200000000}).Draw(t, label+"_asn")))
		}
		out = append(out, s)
	}
	return out
}

func genCluster(t *rapid.T, label string) (bool, []uint32) {
	i := rapid.IntRange(0, len(SelClusters)-1).Draw(t, label)
	if i == 0 {
		return false, nil
	}
	return true, SelClusters[i]
}

func genComms(t *rapid.T, label string) (bool, []uint32) {
	switch rapid.IntRange(0, 5).Draw(t, label) {
	case 0, 1, 2:
		return false, nil
	case 3:
		return true, []uint32{}
	case 4:
		return true, []uint32{0xFFFFFF01}
	default:
		return true, []uint32{65001<<16 | 100, 0xFFFFFF02, 0}
	}
}

// GenBGP draws a BGP path from the bounded decision domain.
func (d SelDomain) GenBGP(t *rapid.T, label string) SelPath {
	var p SelPath
	p.LocalPref = rapid.SampledFrom(SelLPs).Draw(t, label+"_lp")
	p.ASPath = genASPath(t, label+"_as")
	p.Origin = rapid.SampledFrom(SelOrigins).Draw(t, label+"_origin")
	p.MED = rapid.SampledFrom(SelMEDs).Draw(t, label+"_med")
	p.EBGP = rapid.Bool().Draw(t, label+"_ebgp")
	p.BGPID = rapid.SampledFrom(SelIDs).Draw(t, label+"_id")
	p.OriginatorID = rapid.SampledFrom(SelOrigIDs).Draw(t, label+"_orig")
	p.ClusterSet, p.Cluster = genCluster(t, label+"_cl")
	p.Source = d.genAddr(t, label+"_src")
	p.NextHop = d.genAddr(t, label+"_nh")
	p.PathID = uint32(rapid.SampledFrom([]int{0, 0, 0, 1, 2}).Draw(t, label+"_pid"))
	p.CommsSet, p.Comms = genComms(t, label+"_comm")
	return p
}

// GenStatic draws a static path.
func (d SelDomain) GenStatic(t *rapid.T, label string) SelPath {
	return SelPath{Static: true, NextHop: d.genAddr(t, label+"_nh")}
}

// GenAny draws a BGP path (3 of 4) or a static path.
func (d SelDomain) GenAny(t *rapid.T, label string) SelPath {
	if rapid.IntRange(0, 3).Draw(t, label+"_static") == 0 {
		return d.GenStatic(t, label)
	}
	return d.GenBGP(t, label)
}

// SelAttrs are the attributes Mutate can re-draw.
var SelAttrs = []string{"lp", "aspath", "origin", "med", "ebgp", "id", "orig", "cluster", "src", "nh", "pid", "comm"}

// Mutate returns a copy of p with exactly one attribute re-drawn (the drawn
// value may coincide with the old one) and the attribute's name. Static paths
// get a new next hop.
func (d SelDomain) Mutate(t *rapid.T, p SelPath, label string) (SelPath, string) {
	if p.Static {
		p.NextHop = d.genAddr(t, label+"_nh")
		return p, "nh"
	}
	// decision attributes of the late steps are chosen more often
	attr := rapid.SampledFrom([]string{"lp", "aspath", "origin", "med", "ebgp", "id", "id", "orig", "orig", "cluster", "cluster", "cluster", "src", "src", "nh", "pid", "comm"}).Draw(t, label+"_attr")
	switch attr {
	case "lp":
		p.LocalPref = rapid.SampledFrom(SelLPs).Draw(t, label+"_lp")
	case "aspath":
		p.ASPath = genASPath(t, label+"_as")
	case "origin":
		p.Origin = rapid.SampledFrom(SelOrigins).Draw(t, label+"_origin")
	case "med":
		p.MED = rapid.SampledFrom(SelMEDs).Draw(t, label+"_med")
	case "ebgp":
		p.EBGP = !p.EBGP
	case "id":
		p.BGPID = rapid.SampledFrom(SelIDs).Draw(t, label+"_id")
	case "orig":
		p.OriginatorID = rapid.SampledFrom(SelOrigIDs).Draw(t, label+"_orig")
	case "cluster":
		p.ClusterSet, p.Cluster = genCluster(t, label+"_cl")
	case "src":
		p.Source = d.genAddr(t, label+"_src")
	case "nh":
		p.NextHop = d.genAddr(t, label+"_nh")
	case "pid":
		p.PathID = uint32(rapid.IntRange(0, 3).Draw(t, label+"_pid"))
	case "comm":
		p.CommsSet, p.Comms = genComms(t, label+"_comm")
	}
	return p, attr
}

// GenExtras fills the attributes that only matter to the API conversion
// (C34): large communities, unknown attributes, OTC, post-policy flag, hidden
// reason 0..7, learn time.
func GenExtras(t *rapid.T, p SelPath, label string) SelPath {
	p.Hidden = uint8(rapid.IntRange(0, 7).Draw(t, label+"_hidden"))
	p.LTime = uint32(rapid.SampledFrom([]int{0, 1, 1700000000}).Draw(t, label+"_ltime"))
	if p.Static {
		return p
	}
	switch rapid.IntRange(0, 3).Draw(t, label+"_lc") {
	case 1:
		p.LCommsSet = true
		p.LComms = []SelLC{}
	case 2:
		p.LCommsSet = true
		p.LComms = []SelLC{{65001, 1, 2}}
	case 3:
		p.LCommsSet = true
		p.LComms = []SelLC{{0xffffffff, 0, 0xffffffff}, {1, 2, 3}}
	}
	nu := rapid.IntRange(0, 2).Draw(t, label+"_nunk")
	for i := 0; i < nu; i++ {
		u := SelUnknown{
			Optional:   rapid.Bool().Draw(t, label+"_uo"),
			Transitive: rapid.Bool().Draw(t, label+"_ut"),
			Partial:    rapid.Bool().Draw(t, label+"_up"),
			Type:       uint8(rapid.SampledFrom([]int{11, 32, 99, 128, 255}).Draw(t, label+"_utype")),
		}
		switch rapid.IntRange(0, 4).Draw(t, label+"_uval") {
		case 4: // around the extended-length boundary and up to the size of a whole message
			n := rapid.SampledFrom([]int{255, 256, 257, 512, 4000}).Draw(t, label+"_ulen")
			u.Value = make([]byte, n)
			for j := range u.Value {
				u.Value[j] = byte(j*7 + n)
			}
		case 0:
			u.ValueNil = true
		case 1:
			u.Value = []byte{}
		case 2:
			u.Value = []byte{0}
		default:
			u.Value = rapid.SliceOfN(rapid.Byte(), 1, 300).Draw(t, label+"_ubytes")
		}
		p.Unknown = append(p.Unknown, u)
	}
	p.OTC = uint32(rapid.SampledFrom([]int{0, 0, 65001, 4200000000}).Draw(t, label+"_otc"))
	p.PostPolicy = rapid.Bool().Draw(t, label+"_pp")
	p.PathID = uint32(rapid.SampledFrom([]int{0, 1, 0xffffffff}).Draw(t, label+"_pid2"))
	return p
}

// selCompareKey renders every attribute bio-rd's Path.Compare looks at (and
// more); two descriptions with different keys may or may not be
// Compare-equal, equal keys are Compare-equal.
func selCompareKey(p SelPath) string { return p.String() }

// GenSet draws min..max path descriptions for one prefix that are pairwise
// distinct (a Loc-RIB never holds two Compare-equal paths for a prefix:
// adjRIBIn removes/replaces by Compare, add-path paths differ in the path
// identifier). Later paths are mostly one-attribute mutations of earlier ones
// so that ties at every step occur. A duplicate draw is made distinct by
// giving it an add-path identifier nobody else has.
func (d SelDomain) GenSet(t *rapid.T, min, max int, withStatic bool) []SelPath {
	n := rapid.IntRange(min, max).Draw(t, "n")
	var out []SelPath
	seen := map[string]bool{}
	for len(out) < n {
		i := len(out)
		var s SelPath
		mode := rapid.IntRange(0, 3).Draw(t, fmt.Sprintf("mode%d", i))
		if i == 0 || mode == 0 {
			if withStatic {
				s = d.GenAny(t, fmt.Sprintf("p%d", i))
			} else {
				s = d.GenBGP(t, fmt.Sprintf("p%d", i))
			}
		} else {
			base := out[rapid.IntRange(0, i-1).Draw(t, fmt.Sprintf("base%d", i))]
			s, _ = d.Mutate(t, base, fmt.Sprintf("m%d", i))
		}
		if seen[selCompareKey(s)] {
			if s.Static {
				s = d.GenBGP(t, fmt.Sprintf("q%d", i))
			}
			s.PathID = uint32(100 + i)
		}
		seen[selCompareKey(s)] = true
		out = append(out, s)
	}
	return out
}

// GenExtraBGP draws a BGP path with an add-path identifier (200+k) no path of
// a GenSet result has, for add-then-remove noise in histories.
func (d SelDomain) GenExtraBGP(t *rapid.T, k int) SelPath {
	s := d.GenBGP(t, fmt.Sprintf("x%d", k))
	s.PathID = uint32(200 + k)
	return s
}

// Package verifkit is the shared harness library for the bio-rd property
// checks. It has NO bio-rd imports so that in-package (white-box) harness
// tests may import it without import cycles.
package verifkit

import (
	"encoding/base64"
	"encoding/binary"
	"encoding/json"
	"fmt"
	"hash/fnv"
	"os"
	"path/filepath"
	"sort"
	"strings"
	"sync"
	"time"
)

// maxHashes bounds the per-process set of non-trivial case hashes. When the
// bound is hit the set stops growing, so distinct_nontrivial is a lower bound.
const maxHashes = 4_000_000

const maxSamples = 6
const maxSampleLen = 3000

// TB is the subset of testing.TB the recorder needs.
type TB interface {
	Cleanup(func())
	Name() string
}

// Recorder accumulates evidence for one test function (one property machine).
type Recorder struct {
	mu         sync.Mutex
	prop       string
	name       string
	rule       string
	evals      int64
	nontrivial int64
	hashes     map[uint64]struct{}
	saturated  bool
	classes    map[string]int64
	samples    []string
	knownHits  map[string]int64
	excluded   map[string]int64
	exhaustive bool
	notes      []string
	start      time.Time
}

// NewRecorder creates a recorder and registers its Flush as test cleanup.
func NewRecorder(t TB, prop, rule string) *Recorder {
	r := &Recorder{
		prop:      prop,
		name:      t.Name(),
		rule:      rule,
		hashes:    map[uint64]struct{}{},
		classes:   map[string]int64{},
		knownHits: map[string]int64{},
		excluded:  map[string]int64{},
		start:     time.Now(),
	}
	t.Cleanup(r.Flush)
	return r
}

// SetExhaustive marks that this recorder's enumeration covered its finite
// space completely (call only after the enumeration has finished).
func (r *Recorder) SetExhaustive(v bool) {
	r.mu.Lock()
	r.exhaustive = v
	r.mu.Unlock()
}

// Note attaches a free-text note to the evidence fragment.
func (r *Recorder) Note(format string, args ...interface{}) {
	r.mu.Lock()
	if len(r.notes) < 20 {
		r.notes = append(r.notes, fmt.Sprintf(format, args...))
	}
	r.mu.Unlock()
}

// Excluded counts a generated case (or part of one) that was removed by
// construction because it would only re-trigger a listed known finding.
func (r *Recorder) Excluded(sig string) {
	r.mu.Lock()
	r.excluded[sig]++
	r.mu.Unlock()
}

// Known reports whether sig is a listed known finding for this property; when
// it is, the hit is counted.
func (r *Recorder) Known(sig string) bool {
	if !IsKnown(sig) {
		return false
	}
	r.mu.Lock()
	r.knownHits[sig]++
	r.mu.Unlock()
	return true
}

// Case is one generated case (one execution of the property).
type Case struct {
	r          *Recorder
	sb         strings.Builder
	nontrivial bool
	classes    map[string]struct{}
	done       bool
}

// Case starts recording one property execution. Call Done (usually deferred).
func (r *Recorder) Case() *Case {
	return &Case{r: r, classes: map[string]struct{}{}}
}

// Logf appends to the canonical rendering of the case (hashed for
// distinctness and used as the sample text).
func (c *Case) Logf(format string, args ...interface{}) {
	if c.sb.Len() > 1<<20 {
		return
	}
	fmt.Fprintf(&c.sb, format, args...)
	c.sb.WriteByte('\n')
}

// Class labels the case as member of a class (counted once per case).
func (c *Case) Class(name string) { c.classes[name] = struct{}{} }

// ClassIf labels the case when cond holds.
func (c *Case) ClassIf(cond bool, name string) {
	if cond {
		c.classes[name] = struct{}{}
	}
}

// NonTrivial flags the case as non-trivial by the recorder's stated rule.
func (c *Case) NonTrivial() { c.nontrivial = true }

// NonTrivialIf flags the case as non-trivial when cond holds.
func (c *Case) NonTrivialIf(cond bool) {
	if cond {
		c.nontrivial = true
	}
}

// IsNonTrivial returns the flag.
func (c *Case) IsNonTrivial() bool { return c.nontrivial }

// String returns the rendering so far.
func (c *Case) String() string { return c.sb.String() }

// Done commits the case to the recorder. Idempotent.
func (c *Case) Done() {
	if c.done {
		return
	}
	c.done = true
	r := c.r
	s := c.sb.String()
	h := fnv.New64a()
	h.Write([]byte(s))
	hv := h.Sum64()
	r.mu.Lock()
	defer r.mu.Unlock()
	r.evals++
	for k := range c.classes {
		r.classes[k]++
	}
	if c.nontrivial {
		r.nontrivial++
		if _, ok := r.hashes[hv]; !ok {
			if len(r.hashes) < maxHashes {
				r.hashes[hv] = struct{}{}
				if len(r.samples) < maxSamples {
					if len(s) > maxSampleLen {
						s = s[:maxSampleLen] + "…"
					}
					r.samples = append(r.samples, s)
				}
			} else {
				r.saturated = true
			}
		}
	}
}

type fragment struct {
	Property    string           `json:"property"`
	Name        string           `json:"name"`
	Rule        string           `json:"rule"`
	Evaluations int64            `json:"evaluations"`
	NonTrivial  int64            `json:"nontrivial_evaluations"`
	Hashes      string           `json:"hashes_b64"`
	Saturated   bool             `json:"saturated"`
	Classes     map[string]int64 `json:"classes"`
	Samples     []string         `json:"samples"`
	KnownHits   map[string]int64 `json:"known_hits"`
	Excluded    map[string]int64 `json:"excluded"`
	Exhaustive  bool             `json:"exhaustive"`
	Notes       []string         `json:"notes"`
	WallS       float64          `json:"wall_s"`
}

// Flush writes the evidence fragment into $VERIF_EVIDENCE_DIR (no-op if
// unset). The driver merges fragments of all processes of one check run.
func (r *Recorder) Flush() {
	dir := os.Getenv("VERIF_EVIDENCE_DIR")
	if dir == "" {
		return
	}
	r.mu.Lock()
	defer r.mu.Unlock()
	hs := make([]uint64, 0, len(r.hashes))
	for h := range r.hashes {
		hs = append(hs, h)
	}
	sort.Slice(hs, func(i, j int) bool { return hs[i] < hs[j] })
	raw := make([]byte, 8*len(hs))
	for i, h := range hs {
		binary.LittleEndian.PutUint64(raw[8*i:], h)
	}
	f := fragment{
		Property:    r.prop,
		Name:        r.name,
		Rule:        r.rule,
		Evaluations: r.evals,
		NonTrivial:  r.nontrivial,
		Hashes:      base64.StdEncoding.EncodeToString(raw),
		Saturated:   r.saturated,
		Classes:     r.classes,
		Samples:     r.samples,
		KnownHits:   r.knownHits,
		Excluded:    r.excluded,
		Exhaustive:  r.exhaustive,
		Notes:       r.notes,
		WallS:       time.Since(r.start).Seconds(),
	}
	b, err := json.Marshal(f)
	if err != nil {
		fmt.Fprintf(os.Stderr, "verifkit: evidence fragment of %s/%s not written: %v\n", r.prop, r.name, err)
		return
	}
	_ = os.MkdirAll(dir, 0o755)
	name := strings.NewReplacer("/", "_", " ", "_").Replace(r.name)
	fn := filepath.Join(dir, fmt.Sprintf("%s.%s.%d.%d.json", r.prop, name, os.Getpid(), time.Now().UnixNano()))
	if err := os.WriteFile(fn, b, 0o644); err != nil {
		fmt.Fprintf(os.Stderr, "verifkit: evidence fragment %s not written: %v\n", fn, err)
	}
}

// ---------------------------------------------------------------------------
// known findings

var (
	knownOnce sync.Once
	knownSigs map[string]struct{}
)

func loadKnown() {
	knownSigs = map[string]struct{}{}
	p := os.Getenv("VERIF_KNOWN")
	if p == "" {
		return
	}
	b, err := os.ReadFile(p)
	if err != nil {
		return
	}
	for _, line := range strings.Split(string(b), "\n") {
		line = strings.TrimSpace(line)
		if !strings.HasPrefix(line, "finding:") {
			continue
		}
		for _, f := range strings.Fields(line) {
			if strings.HasPrefix(f, "sig=") {
				knownSigs[strings.TrimPrefix(f, "sig=")] = struct{}{}
			}
		}
	}
}

// IsKnown reports whether sig is listed as `finding:` in the known-findings
// file ($VERIF_KNOWN). `fixed:` entries suppress nothing.
func IsKnown(sig string) bool {
	knownOnce.Do(loadKnown)
	_, ok := knownSigs[sig]
	return ok
}

// Seed returns $VERIF_SEED (default 1, 0 remapped to 1) for harness code that
// needs a seed outside rapid (e.g. schedule workloads).
func Seed() uint64 {
	var s uint64
	fmt.Sscanf(os.Getenv("VERIF_SEED"), "%d", &s)
	if s == 0 {
		s = 1
	}
	return s
}

// Tier returns "quick" or "thorough" from $VERIF_TIER.
func Tier() string {
	if os.Getenv("VERIF_TIER") == "thorough" {
		return "thorough"
	}
	return "quick"
}

// Scale returns q in the quick tier and th in the thorough tier.
func Scale(q, th int) int {
	if Tier() == "thorough" {
		return th
	}
	return q
}

// Shard returns (index, count) of this process among the driver's shards.
func Shard() (int, int) {
	var i, n int
	fmt.Sscanf(os.Getenv("VERIF_SHARD"), "%d", &i)
	fmt.Sscanf(os.Getenv("VERIF_SHARDS"), "%d", &n)
	if n < 1 {
		n = 1
	}
	if i < 0 || i >= n {
		i = 0
	}
	return i, n
}

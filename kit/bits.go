package verifkit

import (
	"fmt"
	"strings"
)

// Bits is an independent bit-string model of an IP prefix / address. It never
// uses bio-rd's net package. W is 32 or 128, A holds the address big-endian
// (first W/8 bytes used), L is the prefix length (0..W).
type Bits struct {
	W int
	A [16]byte
	L int
}

// V4 builds an IPv4 bit string.
func V4(u uint32, l int) Bits {
	var b Bits
	b.W = 32
	b.A[0], b.A[1], b.A[2], b.A[3] = byte(u>>24), byte(u>>16), byte(u>>8), byte(u)
	b.L = l
	return b
}

// V6 builds an IPv6 bit string.
func V6(hi, lo uint64, l int) Bits {
	var b Bits
	b.W = 128
	for i := 0; i < 8; i++ {
		b.A[i] = byte(hi >> (56 - 8*uint(i)))
		b.A[8+i] = byte(lo >> (56 - 8*uint(i)))
	}
	b.L = l
	return b
}

// U32 returns the IPv4 address as integer.
func (b Bits) U32() uint32 {
	return uint32(b.A[0])<<24 | uint32(b.A[1])<<16 | uint32(b.A[2])<<8 | uint32(b.A[3])
}

// HiLo returns the IPv6 address halves.
func (b Bits) HiLo() (hi, lo uint64) {
	for i := 0; i < 8; i++ {
		hi = hi<<8 | uint64(b.A[i])
		lo = lo<<8 | uint64(b.A[8+i])
	}
	return
}

// Bit returns bit i (0 = most significant).
func (b Bits) Bit(i int) bool {
	if i < 0 || i >= b.W {
		return false
	}
	return b.A[i/8]&(0x80>>uint(i%8)) != 0
}

// SetBit returns a copy with bit i set to v.
func (b Bits) SetBit(i int, v bool) Bits {
	if i < 0 || i >= b.W {
		return b
	}
	if v {
		b.A[i/8] |= 0x80 >> uint(i%8)
	} else {
		b.A[i/8] &^= 0x80 >> uint(i%8)
	}
	return b
}

// FlipBit returns a copy with bit i inverted.
func (b Bits) FlipBit(i int) Bits { return b.SetBit(i, !b.Bit(i)) }

// Canon returns the prefix with all host bits (positions >= L) cleared.
func (b Bits) Canon() Bits {
	for i := b.L; i < b.W; i++ {
		if i%8 == 0 && i+8 <= b.W {
			b.A[i/8] = 0
			i += 7
			continue
		}
		b = b.SetBit(i, false)
	}
	return b
}

// IsCanon reports whether all host bits are zero.
func (b Bits) IsCanon() bool { return b.Canon() == b }

// WithLen returns the same address with another length.
func (b Bits) WithLen(l int) Bits { b.L = l; return b }

// CommonLen returns the number of leading bits a and b share (at most max).
func CommonLen(a, b Bits, max int) int {
	n := 0
	for n < max && n < a.W && a.Bit(n) == b.Bit(n) {
		n++
	}
	return n
}

// Covers reports p ⊇ q: same family, len(q) >= len(p), first len(p) bits equal.
func Covers(p, q Bits) bool {
	if p.W != q.W || q.L < p.L {
		return false
	}
	return CommonLen(p, q, p.L) == p.L
}

// StrictlyCovers reports p ⊃ q (Covers and longer).
func StrictlyCovers(p, q Bits) bool { return q.L > p.L && Covers(p, q) }

// SamePrefix reports equality of the first L bits and the length (host bits
// ignored).
func SamePrefix(p, q Bits) bool { return p.W == q.W && p.L == q.L && Covers(p, q) }

// CommonSupernet returns the longest prefix covering both (length at most
// min(len p, len q)), canonical.
func CommonSupernet(p, q Bits) Bits {
	m := p.L
	if q.L < m {
		m = q.L
	}
	n := CommonLen(p, q, m)
	return p.WithLen(n).Canon()
}

// CmpAddr compares the addresses as unsigned big-endian integers.
func CmpAddr(a, b Bits) int {
	for i := 0; i < a.W/8; i++ {
		if a.A[i] < b.A[i] {
			return -1
		}
		if a.A[i] > b.A[i] {
			return 1
		}
	}
	return 0
}

// Key renders the prefix canonically ("4:<bits>" with exactly L bits).
func (b Bits) Key() string {
	var sb strings.Builder
	if b.W == 32 {
		sb.WriteString("4:")
	} else {
		sb.WriteString("6:")
	}
	for i := 0; i < b.L; i++ {
		if b.Bit(i) {
			sb.WriteByte('1')
		} else {
			sb.WriteByte('0')
		}
	}
	return sb.String()
}

// String renders address/len in hex for humans.
func (b Bits) String() string {
	if b.W == 32 {
		return fmt.Sprintf("%d.%d.%d.%d/%d", b.A[0], b.A[1], b.A[2], b.A[3], b.L)
	}
	var sb strings.Builder
	for i := 0; i < 16; i += 2 {
		if i > 0 {
			sb.WriteByte(':')
		}
		fmt.Fprintf(&sb, "%x", uint16(b.A[i])<<8|uint16(b.A[i+1]))
	}
	fmt.Fprintf(&sb, "/%d", b.L)
	return sb.String()
}

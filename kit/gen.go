package verifkit

import (
	"pgregory.net/rapid"
)

var v4Lens = []int{0, 1, 7, 8, 9, 15, 16, 17, 23, 24, 25, 30, 31, 32}
var v6Lens = []int{0, 1, 7, 8, 9, 31, 32, 33, 47, 48, 49, 63, 64, 65, 95, 96, 97, 126, 127, 128}

// GenFamily draws 32 or 128.
func GenFamily(t *rapid.T) int {
	if rapid.Bool().Draw(t, "v6") {
		return 128
	}
	return 32
}

// GenLen draws a prefix length for width w, biased to boundaries.
func GenLen(t *rapid.T, w int, label string) int {
	if rapid.IntRange(0, 2).Draw(t, label+"_mode") == 0 {
		return rapid.IntRange(0, w).Draw(t, label)
	}
	if w == 32 {
		return rapid.SampledFrom(v4Lens).Draw(t, label)
	}
	return rapid.SampledFrom(v6Lens).Draw(t, label)
}

// GenAddr draws an address of width w (L = w): zero, ones, documentation
// prefixes, alternating patterns or random.
func GenAddr(t *rapid.T, w int, label string) Bits {
	mode := rapid.IntRange(0, 6).Draw(t, label+"_mode")
	if w == 32 {
		switch mode {
		case 0:
			return V4(0, 32)
		case 1:
			return V4(0xffffffff, 32)
		case 2:
			return V4(0xc0000200|uint32(rapid.IntRange(0, 255).Draw(t, label+"_lo")), 32) // 192.0.2.x
		case 3:
			return V4(0xaaaaaaaa>>uint(rapid.IntRange(0, 1).Draw(t, label+"_sh")), 32)
		default:
			return V4(rapid.Uint32().Draw(t, label), 32)
		}
	}
	switch mode {
	case 0:
		return V6(0, 0, 128)
	case 1:
		return V6(^uint64(0), ^uint64(0), 128)
	case 2:
		return V6(0x20010db800000000|uint64(rapid.Uint32().Draw(t, label+"_mid")), rapid.Uint64().Draw(t, label+"_lo"), 128)
	case 3:
		sh := uint(rapid.IntRange(0, 1).Draw(t, label+"_sh"))
		return V6(0xaaaaaaaaaaaaaaaa>>sh, 0xaaaaaaaaaaaaaaaa>>sh, 128)
	case 6:
		// IPv4-mapped / IPv4-compatible region and low addresses
		if rapid.Bool().Draw(t, label+"_mapped") {
			return V6(0, 0xffff00000000|uint64(rapid.Uint32().Draw(t, label+"_v4")), 128)
		}
		return V6(0, uint64(rapid.Uint32().Draw(t, label+"_v4")), 128)
	default:
		return V6(rapid.Uint64().Draw(t, label+"_hi"), rapid.Uint64().Draw(t, label+"_lo"), 128)
	}
}

// GenPrefix draws a canonical prefix of width w.
func GenPrefix(t *rapid.T, w int, label string) Bits {
	a := GenAddr(t, w, label+"_a")
	return a.WithLen(GenLen(t, w, label+"_l")).Canon()
}

// GenRelative derives a canonical prefix related to p: 0 supernet
// (truncation), 1 subnet (extension with generated bits), 2 sibling (flip
// exactly one bit inside the prefix, keep or change length), 3 same, 4
// unrelated fresh prefix.
func GenRelative(t *rapid.T, p Bits, label string) Bits {
	switch rapid.IntRange(0, 4).Draw(t, label+"_rel") {
	case 0:
		if p.L == 0 {
			return p
		}
		return p.WithLen(rapid.IntRange(0, p.L-1).Draw(t, label+"_sup")).Canon()
	case 1:
		if p.L == p.W {
			return p
		}
		nl := rapid.IntRange(p.L+1, p.W).Draw(t, label+"_sub")
		q := p.WithLen(nl)
		// fill new bits: zeros, ones or random
		switch rapid.IntRange(0, 2).Draw(t, label+"_fill") {
		case 1:
			for i := p.L; i < nl; i++ {
				q = q.SetBit(i, true)
			}
		case 2:
			r := GenAddr(t, p.W, label+"_r")
			for i := p.L; i < nl; i++ {
				q = q.SetBit(i, r.Bit(i))
			}
		}
		return q.Canon()
	case 2:
		if p.L == 0 {
			return p
		}
		pos := rapid.IntRange(0, p.L-1).Draw(t, label+"_flip")
		q := p.FlipBit(pos)
		if rapid.Bool().Draw(t, label+"_relen") {
			q = q.WithLen(rapid.IntRange(pos+1, p.W).Draw(t, label+"_nl"))
		}
		return q.Canon()
	case 3:
		return p
	default:
		return GenPrefix(t, p.W, label+"_new")
	}
}

// GenUniverse draws n canonical prefixes of one family that are related to
// each other (shared stems, covering, siblings) plus fresh ones.
func GenUniverse(t *rapid.T, w, n int, label string) []Bits {
	out := make([]Bits, 0, n)
	out = append(out, GenPrefix(t, w, label+"0"))
	for len(out) < n {
		base := out[rapid.IntRange(0, len(out)-1).Draw(t, label+"_base")]
		out = append(out, GenRelative(t, base, label))
	}
	return out
}

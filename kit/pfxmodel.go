package verifkit

import (
	"fmt"
	"sort"
)

func fmtS(f string, a ...interface{}) string { return fmt.Sprintf(f, a...) }

// PfxModel is the reference model of a routing table for C01: a plain map
// from canonical prefix (bit string) to the multiset of path ids stored for
// it. Containment is decided on bit strings (Covers), never through bio-rd's
// net package. A prefix is "stored" iff it has at least one path.
type PfxModel struct {
	m map[string]*pfxEntry
}

type pfxEntry struct {
	p     Bits
	paths []int
}

// NewPfxModel returns an empty model.
func NewPfxModel() *PfxModel { return &PfxModel{m: map[string]*pfxEntry{}} }

// Add stores path id for prefix p (appends; duplicates are kept).
func (m *PfxModel) Add(p Bits, id int) {
	k := p.Key()
	e := m.m[k]
	if e == nil {
		e = &pfxEntry{p: p.Canon()}
		m.m[k] = e
	}
	e.paths = append(e.paths, id)
}

// Remove deletes one occurrence of id from p (no-op when absent). It reports
// whether the prefix stopped being stored by this removal.
func (m *PfxModel) Remove(p Bits, id int) bool {
	k := p.Key()
	e := m.m[k]
	if e == nil {
		return false
	}
	for i, x := range e.paths {
		if x == id {
			e.paths = append(e.paths[:i:i], e.paths[i+1:]...)
			break
		}
	}
	if len(e.paths) == 0 {
		delete(m.m, k)
		return true
	}
	return false
}

// Replace makes id the only path of p.
func (m *PfxModel) Replace(p Bits, id int) {
	m.m[p.Key()] = &pfxEntry{p: p.Canon(), paths: []int{id}}
}

// ReplaceOne substitutes the first occurrence of old by id; reports whether
// old was stored for p.
func (m *PfxModel) ReplaceOne(p Bits, old, id int) bool {
	e := m.m[p.Key()]
	if e == nil {
		return false
	}
	for i, x := range e.paths {
		if x == old {
			e.paths[i] = id
			return true
		}
	}
	return false
}

// RemovePfx forgets p; reports whether it was stored.
func (m *PfxModel) RemovePfx(p Bits) bool {
	k := p.Key()
	_, ok := m.m[k]
	delete(m.m, k)
	return ok
}

// Has reports whether p is stored.
func (m *PfxModel) Has(p Bits) bool { return m.m[p.Key()] != nil }

// HasPath reports whether id is stored for p.
func (m *PfxModel) HasPath(p Bits, id int) bool {
	e := m.m[p.Key()]
	if e == nil {
		return false
	}
	for _, x := range e.paths {
		if x == id {
			return true
		}
	}
	return false
}

// Get returns the sorted path ids stored for p (nil when p is not stored).
func (m *PfxModel) Get(p Bits) []int {
	e := m.m[p.Key()]
	if e == nil {
		return nil
	}
	out := append([]int(nil), e.paths...)
	sort.Ints(out)
	return out
}

// Len returns the number of stored prefixes.
func (m *PfxModel) Len() int { return len(m.m) }

func (m *PfxModel) sel(f func(Bits) bool) []string {
	out := []string{}
	for k, e := range m.m {
		if f(e.p) {
			out = append(out, k)
		}
	}
	sort.Strings(out)
	return out
}

// Keys returns the sorted keys of all stored prefixes.
func (m *PfxModel) Keys() []string { return m.sel(func(Bits) bool { return true }) }

// Covering returns the sorted keys of the stored prefixes that contain or
// equal q.
func (m *PfxModel) Covering(q Bits) []string {
	return m.sel(func(p Bits) bool { return Covers(p, q) })
}

// Longer returns the sorted keys of the stored prefixes that equal q or lie
// inside q (whether or not q itself is stored).
func (m *PfxModel) Longer(q Bits) []string {
	return m.sel(func(p Bits) bool { return Covers(q, p) })
}

// PfxTable is what a C01 harness adapter exposes of the table under test, in
// model terms (bit strings and path ids). An adapter maps every path object it
// cannot identify to id -1.
type PfxTable interface {
	Get(q Bits) (ids []int, found bool)
	LPM(q Bits) []Bits
	GetLonger(q Bits) []Bits
	Dump() []Bits
	Count() int64
}

func keySet(l []Bits) []string {
	seen := map[string]struct{}{}
	out := []string{}
	for _, b := range l {
		k := b.Key()
		if _, ok := seen[k]; ok {
			continue
		}
		seen[k] = struct{}{}
		out = append(out, k)
	}
	sort.Strings(out)
	return out
}

func eqStrings(a, b []string) bool {
	if len(a) != len(b) {
		return false
	}
	for i := range a {
		if a[i] != b[i] {
			return false
		}
	}
	return true
}

func eqInts(a, b []int) bool {
	if len(a) != len(b) {
		return false
	}
	for i := range a {
		if a[i] != b[i] {
			return false
		}
	}
	return true
}

// CheckPfxTable compares every lookup of tbl with the model m for every query
// in queries (stored or not). It returns "" or a description of the first
// disagreement. Result order is not constrained; LPM/GetLonger are compared
// as sets, Dump must list each stored prefix exactly once.
func CheckPfxTable(m *PfxModel, tbl PfxTable, queries []Bits) string {
	// dump and count
	d := tbl.Dump()
	dk := make([]string, 0, len(d))
	for _, b := range d {
		dk = append(dk, b.Key())
	}
	sort.Strings(dk)
	if want := m.Keys(); !eqStrings(dk, want) {
		return fmtS("Dump lists %v, stored prefixes are %v", dk, want)
	}
	if c := tbl.Count(); c != int64(m.Len()) {
		return fmtS("route count = %d, %d prefixes are stored (%v)", c, m.Len(), m.Keys())
	}
	for _, q := range queries {
		ids, found := tbl.Get(q)
		want := m.Get(q)
		if found != (want != nil) {
			return fmtS("Get(%v) found=%v, model stored=%v (paths %v)", q, found, want != nil, want)
		}
		if found {
			sort.Ints(ids)
			if !eqInts(ids, want) {
				return fmtS("Get(%v) returns paths %v, stored paths are %v", q, ids, want)
			}
		}
		if got, want := keySet(tbl.LPM(q)), m.Covering(q); !eqStrings(got, want) {
			return fmtS("LPM(%v) lists %v, stored prefixes containing or equal to it are %v (all stored: %v)", q, got, want, m.Keys())
		}
		if got, want := keySet(tbl.GetLonger(q)), m.Longer(q); !eqStrings(got, want) {
			return fmtS("GetLonger(%v) lists %v, stored prefixes equal to or inside it are %v (query stored: %v)", q, got, want, m.Has(q))
		}
	}
	return ""
}

package verifkit

// Policy-chain grammar, path value model, reference interpreter and mutation
// combinator shared by C14 (routingtable/filter) and C12 (protocols/bgp/server).
// No bio-rd imports: harness files translate PolChain -> filter.Chain (exported
// constructors only) and route.Path <-> PolPath.
//
// Semantics implemented by PolEval (C14 statement + Documentation/user/config/policy.md):
//   * filters in order, terms in order;
//   * a term applies when it has no conditions or ANY condition matches;
//   * a condition matches when ALL of its parts match; a part (route filters,
//     prefix lists, protocols) matches when it is empty or ANY element matches;
//   * route filter: exact = same prefix; orlonger = same or more specific;
//     longer = strictly more specific; range(min,max) = same or more specific
//     and min <= len <= max (inclusive). A pattern never matches a prefix of the
//     other address family;
//   * prefix list: an entry matches by the list's matcher (exact when built
//     with NewPrefixList);
//   * actions run in order; accept / reject end evaluation of the whole chain;
//     set-local-pref / set-MED / AS-path-prepend rewrite BGP attributes (no-op
//     on a path without BGP attributes); set-next-hop rewrites the next hop of
//     the path's protocol;
//   * nothing terminates -> accepted with the rewrites made so far.

import (
	"fmt"
	"sort"
	"strings"

	"pgregory.net/rapid"
)

// Path type numbers (asserted against route.StaticPathType / BGPPathType by the harness files).
const (
	PolTypeStatic uint8 = 1
	PolTypeBGP    uint8 = 2
)

// ---------------------------------------------------------------------------
// path value model

type PolSeg struct {
	Set  bool
	ASNs []uint32
}

type PolUnknown struct {
	Optional, Transitive, Partial bool
	Code                          uint8
	Value                         []byte
}

type PolLC struct{ G, D1, D2 uint32 }

// PolPath is a deep value model of route.Path (BGP and static parts).
type PolPath struct {
	Type              uint8
	RedistributedFrom uint8
	HiddenReason      uint8
	LTime             uint32

	HasStatic bool
	StaticNH  Bits

	HasBGP          bool
	NextHop, Source Bits
	LocalPref       uint32
	MED             uint32
	BGPIdentifier   uint32
	OriginatorID    uint32
	OTC             uint32
	EBGP            bool
	AtomicAggregate bool
	Origin          uint8
	HasAggregator   bool
	AggAddr         uint32
	AggASN          uint16
	ASPathNil       bool
	ASPath          []PolSeg
	ASPathLen       uint16
	HasClusterList  bool
	ClusterList     []uint32
	HasCommunities  bool
	Communities     []uint32
	HasLarge        bool
	Large           []PolLC
	Unknown         []PolUnknown
	PathID          uint32
	BMPPostPolicy   bool
}

// Clone returns a deep copy.
func (p PolPath) Clone() PolPath {
	q := p
	q.ASPath = make([]PolSeg, len(p.ASPath))
	for i, s := range p.ASPath {
		q.ASPath[i] = PolSeg{Set: s.Set, ASNs: append([]uint32{}, s.ASNs...)}
	}
	q.ClusterList = append([]uint32{}, p.ClusterList...)
	q.Communities = append([]uint32{}, p.Communities...)
	q.Large = append([]PolLC{}, p.Large...)
	q.Unknown = make([]PolUnknown, len(p.Unknown))
	for i, u := range p.Unknown {
		q.Unknown[i] = u
		q.Unknown[i].Value = append([]byte{}, u.Value...)
	}
	return q
}

func polAddr(b Bits) string {
	s := b.String()
	return s[:strings.IndexByte(s, '/')]
}

// Render gives the canonical text of the value (every field). withID=false
// leaves the path identifier out (C12 compares tables with path ids ignored).
func (p PolPath) Render(withID bool) string {
	var sb strings.Builder
	fmt.Fprintf(&sb, "type=%d redist=%d hidden=%d ltime=%d", p.Type, p.RedistributedFrom, p.HiddenReason, p.LTime)
	if p.HasStatic {
		fmt.Fprintf(&sb, " static{nh=%s}", polAddr(p.StaticNH))
	}
	if p.HasBGP {
		fmt.Fprintf(&sb, " bgp{nh=%s src=%s lp=%d med=%d id=%d orig=%d otc=%d ebgp=%v aa=%v origin=%d",
			polAddr(p.NextHop), polAddr(p.Source), p.LocalPref, p.MED, p.BGPIdentifier, p.OriginatorID, p.OTC, p.EBGP, p.AtomicAggregate, p.Origin)
		if p.HasAggregator {
			fmt.Fprintf(&sb, " aggr=%d/%d", p.AggAddr, p.AggASN)
		}
		if p.ASPathNil {
			sb.WriteString(" aspath=nil")
		} else {
			sb.WriteString(" aspath=")
			for _, s := range p.ASPath {
				if s.Set {
					fmt.Fprintf(&sb, "{%v}", s.ASNs)
				} else {
					fmt.Fprintf(&sb, "(%v)", s.ASNs)
				}
			}
		}
		fmt.Fprintf(&sb, " aslen=%d", p.ASPathLen)
		if p.HasClusterList {
			fmt.Fprintf(&sb, " cl=%v", p.ClusterList)
		}
		if p.HasCommunities {
			fmt.Fprintf(&sb, " com=%v", p.Communities)
		}
		if p.HasLarge {
			fmt.Fprintf(&sb, " lcom=%v", p.Large)
		}
		for _, u := range p.Unknown {
			fmt.Fprintf(&sb, " unk(%v,%v,%v,%d,%x)", u.Optional, u.Transitive, u.Partial, u.Code, u.Value)
		}
		if withID {
			fmt.Fprintf(&sb, " pathid=%d", p.PathID)
		}
		fmt.Fprintf(&sb, " bmppp=%v}", p.BMPPostPolicy)
	}
	return sb.String()
}

// PolASPathLen is the AS path length used by selection: sequence = number of
// ASNs, set = 1.
func PolASPathLen(segs []PolSeg) uint16 {
	var n uint16
	for _, s := range segs {
		if s.Set {
			n++
		} else {
			n += uint16(len(s.ASNs))
		}
	}
	return n
}

// ---------------------------------------------------------------------------
// grammar

const (
	PolExact = iota
	PolOrLonger
	PolLonger
	PolRange
)

type PolMatcher struct {
	Kind     int
	Min, Max uint8
}

func (m PolMatcher) String() string {
	switch m.Kind {
	case PolExact:
		return "exact"
	case PolOrLonger:
		return "orlonger"
	case PolLonger:
		return "longer"
	}
	return fmt.Sprintf("range(%d,%d)", m.Min, m.Max)
}

// PolPattern is a prefix used inside a policy. ID is its object identity:
// copies keep the ID (the harness builds ONE *net.Prefix per ID, which is what
// RouteFilter.equal compares), a changed pattern gets a new ID.
type PolPattern struct {
	ID int
	P  Bits
}

type PolRouteFilter struct {
	Pat PolPattern
	M   PolMatcher
}

type PolPrefixList struct {
	WithMatcher bool // built by NewPrefixListWithMatcher(M, ...) instead of NewPrefixList(...)
	M           PolMatcher
	Pfxs        []PolPattern
}

// Condition constructors.
const (
	PolCondBoth   = iota // NewTermCondition(prefixLists, routeFilters)
	PolCondRF            // NewTermConditionWithRouteFilters
	PolCondPL            // NewTermConditionWithPrefixLists
	PolCondProtos        // NewTermConditionWithProtocols
)

type PolCond struct {
	Ctor   int
	PLs    []PolPrefixList
	RFs    []PolRouteFilter
	Protos []uint8
}

const (
	PolAccept = iota
	PolReject
	PolSetLocalPref
	PolSetMED
	PolSetNextHop
	PolPrepend
)

type PolAction struct {
	Kind  int
	U32   uint32 // local-pref, MED or ASN
	Count uint16 // prepend count
	IP    Bits   // next hop (L = W)
}

type PolTerm struct {
	Name string
	From []PolCond
	Then []PolAction
}

type PolFilter struct {
	Name  string
	Terms []PolTerm
}

type PolChain []PolFilter

func (a PolAction) String() string {
	switch a.Kind {
	case PolAccept:
		return "accept"
	case PolReject:
		return "reject"
	case PolSetLocalPref:
		return fmt.Sprintf("local-pref %d", a.U32)
	case PolSetMED:
		return fmt.Sprintf("med %d", a.U32)
	case PolSetNextHop:
		return "next-hop " + polAddr(a.IP)
	}
	return fmt.Sprintf("prepend %d x%d", a.U32, a.Count)
}

func (p PolPattern) String() string { return fmt.Sprintf("%v#%d", p.P, p.ID) }

func (c PolCond) String() string {
	var parts []string
	for _, l := range c.PLs {
		s := "pl["
		if l.WithMatcher {
			s = "pl-" + l.M.String() + "["
		}
		for i, p := range l.Pfxs {
			if i > 0 {
				s += " "
			}
			s += p.String()
		}
		parts = append(parts, s+"]")
	}
	for _, r := range c.RFs {
		parts = append(parts, fmt.Sprintf("rf[%v %v]", r.Pat, r.M))
	}
	if c.Ctor == PolCondProtos {
		parts = append(parts, fmt.Sprintf("proto%v", c.Protos))
	}
	return fmt.Sprintf("cond%d{%s}", c.Ctor, strings.Join(parts, " "))
}

// String renders the chain canonically (one term per line).
func (c PolChain) String() string {
	var sb strings.Builder
	for fi, f := range c {
		for ti, t := range f.Terms {
			fmt.Fprintf(&sb, "  f%d.t%d from", fi, ti)
			if len(t.From) == 0 {
				sb.WriteString(" any")
			}
			for _, cd := range t.From {
				sb.WriteString(" " + cd.String())
			}
			sb.WriteString(" then")
			for _, a := range t.Then {
				sb.WriteString(" [" + a.String() + "]")
			}
			sb.WriteByte('\n')
		}
	}
	return sb.String()
}

// Clone returns a deep copy that keeps pattern IDs.
func (c PolChain) Clone() PolChain {
	out := make(PolChain, len(c))
	for i, f := range c {
		nf := PolFilter{Name: f.Name, Terms: make([]PolTerm, len(f.Terms))}
		for j, t := range f.Terms {
			nt := PolTerm{Name: t.Name, From: make([]PolCond, len(t.From)), Then: append([]PolAction{}, t.Then...)}
			for k, cd := range t.From {
				nc := PolCond{Ctor: cd.Ctor, Protos: append([]uint8{}, cd.Protos...), RFs: append([]PolRouteFilter{}, cd.RFs...)}
				nc.PLs = make([]PolPrefixList, len(cd.PLs))
				for m, l := range cd.PLs {
					nc.PLs[m] = PolPrefixList{WithMatcher: l.WithMatcher, M: l.M, Pfxs: append([]PolPattern{}, l.Pfxs...)}
				}
				nt.From[k] = nc
			}
			nf.Terms[j] = nt
		}
		out[i] = nf
	}
	return out
}

// Patterns returns every prefix that occurs in the chain (route-filter
// patterns and prefix-list entries).
func (c PolChain) Patterns() []Bits {
	var out []Bits
	for _, f := range c {
		for _, t := range f.Terms {
			for _, cd := range t.From {
				for _, l := range cd.PLs {
					for _, p := range l.Pfxs {
						out = append(out, p.P)
					}
				}
				for _, r := range cd.RFs {
					out = append(out, r.Pat.P)
				}
			}
		}
	}
	return out
}

// ---------------------------------------------------------------------------
// reference interpreter

// PolMatch is the documented matcher semantics on bit strings.
func PolMatch(m PolMatcher, pattern, pfx Bits) bool {
	if pattern.W != pfx.W {
		return false
	}
	switch m.Kind {
	case PolExact:
		return SamePrefix(pattern, pfx)
	case PolOrLonger:
		return Covers(pattern, pfx)
	case PolLonger:
		return StrictlyCovers(pattern, pfx)
	case PolRange:
		return Covers(pattern, pfx) && pfx.L >= int(m.Min) && pfx.L <= int(m.Max)
	}
	return false
}

// PolTrace says what an evaluation visited (for the non-triviality rule).
type PolTrace struct {
	TermsEvaluated int  // number of terms whose conditions were evaluated
	LaterTerm      bool // evaluation reached a second filter or a later term
	MatchedV6Long  bool // a pattern of an IPv6 length > 32 matched
	TermsApplied   int
	Rewrites       int
	Terminated     bool
}

func (c PolCond) matches(pfx Bits, typ uint8, tr *PolTrace) bool {
	if len(c.PLs) > 0 {
		ok := false
		for _, l := range c.PLs {
			m := PolMatcher{Kind: PolExact}
			if l.WithMatcher {
				m = l.M
			}
			for _, e := range l.Pfxs {
				if PolMatch(m, e.P, pfx) {
					ok = true
					if e.P.W == 128 && e.P.L > 32 {
						tr.MatchedV6Long = true
					}
				}
			}
		}
		if !ok {
			return false
		}
	}
	if len(c.RFs) > 0 {
		ok := false
		for _, r := range c.RFs {
			if PolMatch(r.M, r.Pat.P, pfx) {
				ok = true
				if r.Pat.P.W == 128 && r.Pat.P.L > 32 {
					tr.MatchedV6Long = true
				}
			}
		}
		if !ok {
			return false
		}
	}
	if len(c.Protos) > 0 {
		ok := false
		for _, p := range c.Protos {
			if p == typ {
				ok = true
			}
		}
		if !ok {
			return false
		}
	}
	return true
}

// PolPrependTo prepends asn count times to the model path (new leading
// AS_SEQUENCE when the path is empty or starts with an AS_SET).
func PolPrependTo(p *PolPath, asn uint32, count uint16) {
	if !p.HasBGP || count == 0 {
		return
	}
	if len(p.ASPath) == 0 || p.ASPath[0].Set {
		p.ASPath = append([]PolSeg{{}}, p.ASPath...)
	}
	pre := make([]uint32, 0, int(count)+len(p.ASPath[0].ASNs))
	for i := 0; i < int(count); i++ {
		pre = append(pre, asn)
	}
	p.ASPath[0].ASNs = append(pre, p.ASPath[0].ASNs...)
	p.ASPathNil = false
	p.ASPathLen = PolASPathLen(p.ASPath)
}

// PolEval evaluates the chain on (pfx, in) by the documented semantics. The
// returned path is meaningful only when reject is false.
func PolEval(c PolChain, pfx Bits, in PolPath) (out PolPath, reject bool, tr PolTrace) {
	p := in.Clone()
	for fi, f := range c {
		for ti, t := range f.Terms {
			tr.TermsEvaluated++
			if fi > 0 || ti > 0 {
				tr.LaterTerm = true
			}
			applies := len(t.From) == 0
			for _, cd := range t.From {
				if cd.matches(pfx, p.Type, &tr) {
					applies = true
				}
			}
			if !applies {
				continue
			}
			tr.TermsApplied++
			for _, a := range t.Then {
				switch a.Kind {
				case PolAccept:
					tr.Terminated = true
					return p, false, tr
				case PolReject:
					tr.Terminated = true
					return p, true, tr
				case PolSetLocalPref:
					if p.HasBGP {
						p.LocalPref = a.U32
						tr.Rewrites++
					}
				case PolSetMED:
					if p.HasBGP {
						p.MED = a.U32
						tr.Rewrites++
					}
				case PolSetNextHop:
					if p.Type == PolTypeBGP && p.HasBGP {
						p.NextHop = a.IP
						tr.Rewrites++
					} else if p.Type == PolTypeStatic && p.HasStatic {
						p.StaticNH = a.IP
						tr.Rewrites++
					}
				case PolPrepend:
					if p.HasBGP && a.Count > 0 {
						PolPrependTo(&p, a.U32, a.Count)
						tr.Rewrites++
					}
				}
			}
		}
	}
	return p, false, tr
}

// ---------------------------------------------------------------------------
// generators

// PolGen holds per-case generator state (pattern identities, prefix universe).
type PolGen struct {
	nextID int
	// Universe: prefixes the patterns are drawn from / related to.
	V4, V6 []Bits
	// Families: which families patterns may use (both by default: bio-rd
	// applies one chain to the IPv4 and the IPv6 family of a neighbor).
	Families []int
	// NextHops candidates for set-next-hop.
	NH []Bits
}

// NewPolGen draws the per-case universe. families: 32, 128 or both.
func NewPolGen(t *rapid.T, families ...int) *PolGen {
	g := &PolGen{Families: families}
	if len(families) == 0 {
		g.Families = []int{32, 128}
	}
	for _, w := range g.Families {
		u := GenUniverse(t, w, rapid.IntRange(2, 4).Draw(t, fmt.Sprintf("univ%d_n", w)), fmt.Sprintf("univ%d", w))
		if w == 32 {
			g.V4 = u
		} else {
			g.V6 = u
		}
	}
	return g
}

func (g *PolGen) newPattern(p Bits) PolPattern {
	g.nextID++
	return PolPattern{ID: g.nextID, P: p}
}

func (g *PolGen) universe(w int) []Bits {
	if w == 32 {
		return g.V4
	}
	return g.V6
}

// GenPatternBits draws a canonical prefix related to the universe.
func (g *PolGen) GenPatternBits(t *rapid.T, label string) Bits {
	w := g.Families[0]
	if len(g.Families) > 1 {
		w = rapid.SampledFrom(g.Families).Draw(t, label+"_fam")
	}
	u := g.universe(w)
	base := u[rapid.IntRange(0, len(u)-1).Draw(t, label+"_base")]
	if rapid.IntRange(0, 2).Draw(t, label+"_how") == 0 {
		return base
	}
	return GenRelative(t, base, label)
}

func (g *PolGen) genMatcher(t *rapid.T, w int, pl int, label string) PolMatcher {
	k := rapid.IntRange(0, 3).Draw(t, label+"_kind")
	m := PolMatcher{Kind: k}
	if k == PolRange {
		// bounds around the pattern length, sometimes inverted or far away
		lo := pl + rapid.IntRange(-2, 6).Draw(t, label+"_min")
		hi := lo + rapid.IntRange(-1, 12).Draw(t, label+"_max")
		if rapid.IntRange(0, 5).Draw(t, label+"_wide") == 0 {
			lo, hi = 0, w
		}
		m.Min, m.Max = clampLen(lo, w), clampLen(hi, w)
	}
	return m
}

func clampLen(x, w int) uint8 {
	if x < 0 {
		return 0
	}
	if x > w {
		return uint8(w)
	}
	return uint8(x)
}

func (g *PolGen) genRouteFilter(t *rapid.T, label string) PolRouteFilter {
	p := g.GenPatternBits(t, label+"_pat")
	return PolRouteFilter{Pat: g.newPattern(p), M: g.genMatcher(t, p.W, p.L, label+"_m")}
}

func (g *PolGen) genPrefixList(t *rapid.T, label string) PolPrefixList {
	n := rapid.IntRange(1, 3).Draw(t, label+"_n")
	l := PolPrefixList{}
	for i := 0; i < n; i++ {
		l.Pfxs = append(l.Pfxs, g.newPattern(g.GenPatternBits(t, fmt.Sprintf("%s_e%d", label, i))))
	}
	if rapid.Bool().Draw(t, label+"_withm") {
		l.WithMatcher = true
		l.M = g.genMatcher(t, l.Pfxs[0].P.W, l.Pfxs[0].P.L, label+"_m")
	}
	return l
}

var polProtoPool = []uint8{PolTypeStatic, PolTypeBGP, 3, 5}

func (g *PolGen) genCond(t *rapid.T, label string) PolCond {
	c := PolCond{Ctor: rapid.SampledFrom([]int{PolCondRF, PolCondRF, PolCondRF, PolCondPL, PolCondBoth, PolCondProtos}).Draw(t, label+"_ctor")}
	nrf, npl := 0, 0
	switch c.Ctor {
	case PolCondRF:
		nrf = rapid.IntRange(1, 3).Draw(t, label+"_nrf")
	case PolCondPL:
		npl = rapid.IntRange(1, 2).Draw(t, label+"_npl")
	case PolCondBoth:
		nrf = rapid.IntRange(0, 2).Draw(t, label+"_nrf")
		npl = rapid.IntRange(0, 2).Draw(t, label+"_npl")
	case PolCondProtos:
		n := rapid.IntRange(1, 2).Draw(t, label+"_np")
		for i := 0; i < n; i++ {
			c.Protos = append(c.Protos, rapid.SampledFrom(polProtoPool).Draw(t, fmt.Sprintf("%s_p%d", label, i)))
		}
	}
	for i := 0; i < npl; i++ {
		c.PLs = append(c.PLs, g.genPrefixList(t, fmt.Sprintf("%s_pl%d", label, i)))
	}
	for i := 0; i < nrf; i++ {
		c.RFs = append(c.RFs, g.genRouteFilter(t, fmt.Sprintf("%s_rf%d", label, i)))
	}
	return c
}

var polU32Pool = []uint32{0, 1, 50, 100, 200, 4294967295}
var polASNPool = []uint32{64500, 64501, 65000, 23456, 4200000001}

func (g *PolGen) genNH(t *rapid.T, label string) Bits {
	if len(g.NH) > 0 && rapid.IntRange(0, 3).Draw(t, label+"_pool") > 0 {
		return rapid.SampledFrom(g.NH).Draw(t, label+"_pick")
	}
	w := rapid.SampledFrom(g.Families).Draw(t, label+"_fam")
	return GenAddr(t, w, label)
}

func (g *PolGen) genAction(t *rapid.T, label string) PolAction {
	k := rapid.SampledFrom([]int{PolAccept, PolAccept, PolReject, PolReject, PolSetLocalPref, PolSetLocalPref, PolSetMED, PolSetNextHop, PolPrepend, PolPrepend}).Draw(t, label+"_kind")
	a := PolAction{Kind: k}
	switch k {
	case PolSetLocalPref, PolSetMED:
		if rapid.Bool().Draw(t, label+"_pool") {
			a.U32 = rapid.SampledFrom(polU32Pool).Draw(t, label+"_v")
		} else {
			a.U32 = rapid.Uint32().Draw(t, label+"_v")
		}
	case PolSetNextHop:
		a.IP = g.genNH(t, label+"_nh")
	case PolPrepend:
		a.U32 = rapid.SampledFrom(polASNPool).Draw(t, label+"_asn")
		a.Count = uint16(rapid.IntRange(0, 4).Draw(t, label+"_cnt"))
	}
	return a
}

func (g *PolGen) genTerm(t *rapid.T, label string) PolTerm {
	tm := PolTerm{Name: label}
	nc := rapid.SampledFrom([]int{0, 1, 1, 1, 1, 2, 2, 3}).Draw(t, label+"_nc")
	for i := 0; i < nc; i++ {
		tm.From = append(tm.From, g.genCond(t, fmt.Sprintf("%s_c%d", label, i)))
	}
	na := rapid.SampledFrom([]int{0, 1, 1, 1, 2, 2, 3}).Draw(t, label+"_na")
	for i := 0; i < na; i++ {
		tm.Then = append(tm.Then, g.genAction(t, fmt.Sprintf("%s_a%d", label, i)))
	}
	return tm
}

// GenChain draws a chain of 1-3 filters x 1-3 terms x 0-3 conditions.
func (g *PolGen) GenChain(t *rapid.T, label string) PolChain {
	nf := rapid.SampledFrom([]int{1, 1, 2, 2, 3}).Draw(t, label+"_nf")
	var c PolChain
	for i := 0; i < nf; i++ {
		f := PolFilter{Name: fmt.Sprintf("%s_f%d", label, i)}
		nt := rapid.IntRange(1, 3).Draw(t, fmt.Sprintf("%s_f%d_nt", label, i))
		for j := 0; j < nt; j++ {
			f.Terms = append(f.Terms, g.genTerm(t, fmt.Sprintf("%s_f%d_t%d", label, i, j)))
		}
		c = append(c, f)
	}
	return c
}

// GenInputPrefix draws a canonical prefix that is related by construction to
// one of the given patterns (equal / more / less specific / sibling) or to the
// universe, or is fresh.
func (g *PolGen) GenInputPrefix(t *rapid.T, pats []Bits, label string) Bits {
	mode := rapid.IntRange(0, 9).Draw(t, label+"_mode")
	if len(pats) > 0 && mode < 7 {
		base := pats[rapid.IntRange(0, len(pats)-1).Draw(t, label+"_pat")]
		if mode < 2 {
			return base
		}
		return GenRelative(t, base, label)
	}
	if mode < 9 {
		return g.GenPatternBits(t, label+"_u")
	}
	w := rapid.SampledFrom(g.Families).Draw(t, label+"_fam")
	return GenPrefix(t, w, label+"_fresh")
}

// GenPolBGPPath draws a BGP path value (attribute domain of DESIGN 1.7). Next
// hop and source are addresses of family w.
func GenPolBGPPath(t *rapid.T, w int, label string) PolPath {
	p := PolPath{Type: PolTypeBGP, HasBGP: true}
	p.NextHop = GenAddr(t, w, label+"_nh")
	p.Source = GenAddr(t, w, label+"_src")
	p.LocalPref = rapid.SampledFrom([]uint32{0, 100, 100, 200, 4294967295}).Draw(t, label+"_lp")
	p.MED = rapid.SampledFrom([]uint32{0, 0, 10, 4294967295}).Draw(t, label+"_med")
	p.BGPIdentifier = rapid.Uint32Range(1, 5).Draw(t, label+"_id")
	p.OriginatorID = rapid.SampledFrom([]uint32{0, 0, 7}).Draw(t, label+"_oid")
	p.OTC = rapid.SampledFrom([]uint32{0, 0, 64999}).Draw(t, label+"_otc")
	p.EBGP = rapid.Bool().Draw(t, label+"_ebgp")
	p.AtomicAggregate = rapid.IntRange(0, 4).Draw(t, label+"_aa") == 0
	p.Origin = uint8(rapid.IntRange(0, 2).Draw(t, label+"_origin"))
	if rapid.IntRange(0, 4).Draw(t, label+"_agg") == 0 {
		p.HasAggregator = true
		p.AggAddr = rapid.Uint32().Draw(t, label+"_aggaddr")
		p.AggASN = uint16(rapid.IntRange(1, 65535).Draw(t, label+"_aggasn"))
	}
	ns := rapid.SampledFrom([]int{0, 1, 1, 1, 2, 3}).Draw(t, label+"_nseg")
	for i := 0; i < ns; i++ {
		s := PolSeg{Set: rapid.IntRange(0, 3).Draw(t, fmt.Sprintf("%s_seg%d_set", label, i)) == 0}
		n := rapid.IntRange(1, 4).Draw(t, fmt.Sprintf("%s_seg%d_n", label, i))
		for j := 0; j < n; j++ {
			s.ASNs = append(s.ASNs, rapid.SampledFrom([]uint32{64500, 64501, 65001, 65002, 3320, 4200000001}).Draw(t, fmt.Sprintf("%s_seg%d_%d", label, i, j)))
		}
		p.ASPath = append(p.ASPath, s)
	}
	p.ASPathLen = PolASPathLen(p.ASPath)
	switch rapid.IntRange(0, 3).Draw(t, label+"_cl") {
	case 1:
		p.HasClusterList = true
	case 2:
		p.HasClusterList = true
		n := rapid.IntRange(1, 3).Draw(t, label+"_cln")
		for j := 0; j < n; j++ {
			p.ClusterList = append(p.ClusterList, rapid.Uint32Range(1, 9).Draw(t, fmt.Sprintf("%s_cl%d", label, j)))
		}
	}
	switch rapid.IntRange(0, 3).Draw(t, label+"_com") {
	case 1:
		p.HasCommunities = true
	case 2:
		p.HasCommunities = true
		n := rapid.IntRange(1, 3).Draw(t, label+"_comn")
		for j := 0; j < n; j++ {
			p.Communities = append(p.Communities, rapid.SampledFrom([]uint32{4259840100, 4259840200, 65000<<16 | 1}).Draw(t, fmt.Sprintf("%s_com%d", label, j)))
		}
	}
	if rapid.IntRange(0, 3).Draw(t, label+"_lc") == 0 {
		p.HasLarge = true
		n := rapid.IntRange(0, 2).Draw(t, label+"_lcn")
		for j := 0; j < n; j++ {
			p.Large = append(p.Large, PolLC{G: 64500, D1: uint32(j), D2: rapid.Uint32Range(0, 3).Draw(t, fmt.Sprintf("%s_lc%d", label, j))})
		}
	}
	if rapid.IntRange(0, 3).Draw(t, label+"_unk") == 0 {
		n := rapid.IntRange(1, 2).Draw(t, label+"_unkn")
		for j := 0; j < n; j++ {
			p.Unknown = append(p.Unknown, PolUnknown{Optional: true, Transitive: true, Partial: rapid.Bool().Draw(t, fmt.Sprintf("%s_unk%d_p", label, j)),
				Code: uint8(200 + j), Value: rapid.SliceOfN(rapid.Byte(), 0, 4).Draw(t, fmt.Sprintf("%s_unk%d_v", label, j))})
		}
	}
	return p
}

// GenPolStaticPath draws a static path value.
func GenPolStaticPath(t *rapid.T, w int, label string) PolPath {
	return PolPath{Type: PolTypeStatic, HasStatic: true, StaticNH: GenAddr(t, w, label+"_nh")}
}

// ---------------------------------------------------------------------------
// one-parameter mutation

type polSite struct {
	class string
	apply func(t *rapid.T)
}

// Mutate returns a deep copy of c that differs in exactly one parameter (an
// action value or kind, a matcher, a pattern, a prefix-list entry or matcher,
// a protocol, or one structural element) and a description of the change.
// classes restricts the mutation classes ("" = any of them).
func (g *PolGen) Mutate(t *rapid.T, c PolChain, label string) (PolChain, string) {
	d := c.Clone()
	var sites []polSite
	desc := ""
	add := func(class string, f func(t *rapid.T)) { sites = append(sites, polSite{class, f}) }
	for fi := range d {
		f := &d[fi]
		for ti := range f.Terms {
			tm := &f.Terms[ti]
			loc := fmt.Sprintf("f%d.t%d", fi, ti)
			for ai := range tm.Then {
				a := &tm.Then[ai]
				aloc := fmt.Sprintf("%s.a%d", loc, ai)
				switch a.Kind {
				case PolSetLocalPref, PolSetMED:
					add("action-value", func(t *rapid.T) {
						old := a.U32
						a.U32 = rapid.SampledFrom(polOtherU32(old, []uint32{old + 1, old - 1, old ^ 0x100, 100, 200, 0})).Draw(t, label+"_newv")
						desc = fmt.Sprintf("%s value %d -> %d", aloc, old, a.U32)
					})
				case PolSetNextHop:
					add("action-value", func(t *rapid.T) {
						old := a.IP
						a.IP = old.FlipBit(rapid.IntRange(0, old.W-1).Draw(t, label+"_nhbit"))
						desc = fmt.Sprintf("%s next hop %s -> %s", aloc, polAddr(old), polAddr(a.IP))
					})
				case PolPrepend:
					add("action-value", func(t *rapid.T) {
						if rapid.Bool().Draw(t, label+"_asn_or_cnt") {
							old := a.U32
							a.U32 = rapid.SampledFrom(polOtherU32(old, polASNPool)).Draw(t, label+"_newasn")
							desc = fmt.Sprintf("%s prepend asn %d -> %d (count %d)", aloc, old, a.U32, a.Count)
						} else {
							old := a.Count
							a.Count = uint16(rapid.SampledFrom(polOtherU32(uint32(old), []uint32{0, 1, 2, 3, 4})).Draw(t, label+"_newcnt"))
							desc = fmt.Sprintf("%s prepend count %d -> %d", aloc, old, a.Count)
						}
					})
				}
				add("action-kind", func(t *rapid.T) {
					old := *a
					for tries := 0; a.Kind == old.Kind && tries < 16; tries++ {
						*a = g.genAction(t, label+"_newact")
					}
					if a.Kind == old.Kind {
						*a = PolAction{Kind: PolAccept}
						if old.Kind == PolAccept {
							a.Kind = PolReject
						}
					}
					desc = fmt.Sprintf("%s action [%v] -> [%v]", aloc, old, *a)
				})
			}
			for ci := range tm.From {
				cd := &tm.From[ci]
				cloc := fmt.Sprintf("%s.c%d", loc, ci)
				for ri := range cd.RFs {
					r := &cd.RFs[ri]
					rloc := fmt.Sprintf("%s.rf%d", cloc, ri)
					add("matcher", func(t *rapid.T) {
						old := r.M
						for tries := 0; r.M == old && tries < 16; tries++ {
							r.M = g.genMatcher(t, r.Pat.P.W, r.Pat.P.L, label+"_newm")
						}
						if r.M == old {
							r.M = PolMatcher{Kind: (old.Kind + 1) % 3}
						}
						desc = fmt.Sprintf("%s matcher %v -> %v", rloc, old, r.M)
					})
					add("pattern", func(t *rapid.T) {
						old := r.Pat
						np := polOtherPrefix(t, old.P, label+"_newpat")
						r.Pat = g.newPattern(np)
						desc = fmt.Sprintf("%s pattern %v -> %v", rloc, old, r.Pat)
					})
				}
				for li := range cd.PLs {
					l := &cd.PLs[li]
					lloc := fmt.Sprintf("%s.pl%d", cloc, li)
					add("prefix-list-entry", func(t *rapid.T) {
						switch how := rapid.IntRange(0, 2).Draw(t, label+"_plhow"); {
						case how == 0 && len(l.Pfxs) > 1:
							i := rapid.IntRange(0, len(l.Pfxs)-1).Draw(t, label+"_pli")
							desc = fmt.Sprintf("%s entry %v removed", lloc, l.Pfxs[i])
							l.Pfxs = append(append([]PolPattern{}, l.Pfxs[:i]...), l.Pfxs[i+1:]...)
						case how == 1:
							n := g.newPattern(g.GenPatternBits(t, label+"_pladd"))
							l.Pfxs = append(l.Pfxs, n)
							desc = fmt.Sprintf("%s entry %v added", lloc, n)
						default:
							i := rapid.IntRange(0, len(l.Pfxs)-1).Draw(t, label+"_pli")
							old := l.Pfxs[i]
							np := polOtherPrefix(t, old.P, label+"_plnew")
							l.Pfxs[i] = g.newPattern(np)
							desc = fmt.Sprintf("%s entry %v -> %v", lloc, old, l.Pfxs[i])
						}
					})
					if l.WithMatcher {
						add("prefix-list-matcher", func(t *rapid.T) {
							old := l.M
							for tries := 0; l.M == old && tries < 16; tries++ {
								l.M = g.genMatcher(t, l.Pfxs[0].P.W, l.Pfxs[0].P.L, label+"_plm")
							}
							if l.M == old {
								l.M = PolMatcher{Kind: (old.Kind + 1) % 3}
							}
							desc = fmt.Sprintf("%s matcher %v -> %v", lloc, old, l.M)
						})
					}
				}
				if cd.Ctor == PolCondProtos {
					add("protocol", func(t *rapid.T) {
						switch how := rapid.IntRange(0, 2).Draw(t, label+"_prhow"); {
						case how == 0 && len(cd.Protos) > 1:
							desc = fmt.Sprintf("%s protocol %d removed", cloc, cd.Protos[len(cd.Protos)-1])
							cd.Protos = cd.Protos[:len(cd.Protos)-1]
						case how == 1:
							n := rapid.SampledFrom(polProtoPool).Draw(t, label+"_pradd")
							cd.Protos = append(cd.Protos, n)
							desc = fmt.Sprintf("%s protocol %d added", cloc, n)
						default:
							old := cd.Protos[0]
							var cand []uint8
							for _, x := range polProtoPool {
								if x != old {
									cand = append(cand, x)
								}
							}
							cd.Protos[0] = rapid.SampledFrom(cand).Draw(t, label+"_prnew")
							desc = fmt.Sprintf("%s protocol %d -> %d", cloc, old, cd.Protos[0])
						}
					})
				}
			}
			add("structure", func(t *rapid.T) {
				switch how := rapid.IntRange(0, 3).Draw(t, label+"_sthow"); {
				case how == 0 && len(tm.From) > 0:
					i := rapid.IntRange(0, len(tm.From)-1).Draw(t, label+"_sti")
					desc = fmt.Sprintf("%s condition %d dropped", loc, i)
					tm.From = append(append([]PolCond{}, tm.From[:i]...), tm.From[i+1:]...)
				case how == 1 && len(tm.From) < 3:
					tm.From = append(tm.From, g.genCond(t, label+"_stc"))
					desc = fmt.Sprintf("%s condition added: %v", loc, tm.From[len(tm.From)-1])
				case how == 2 && len(tm.Then) > 0:
					i := rapid.IntRange(0, len(tm.Then)-1).Draw(t, label+"_sti")
					desc = fmt.Sprintf("%s action %d [%v] dropped", loc, i, tm.Then[i])
					tm.Then = append(append([]PolAction{}, tm.Then[:i]...), tm.Then[i+1:]...)
				default:
					na := g.genAction(t, label+"_sta")
					tm.Then = append([]PolAction{na}, tm.Then...)
					desc = fmt.Sprintf("%s action [%v] inserted first", loc, na)
				}
			})
		}
	}
	// choose a class first (so rare classes are not drowned by frequent ones), then a site
	classes := map[string][]int{}
	for i, s := range sites {
		classes[s.class] = append(classes[s.class], i)
	}
	names := make([]string, 0, len(classes))
	for k := range classes {
		names = append(names, k)
	}
	sort.Strings(names)
	cl := rapid.SampledFrom(names).Draw(t, label+"_class")
	idx := classes[cl][rapid.IntRange(0, len(classes[cl])-1).Draw(t, label+"_site")]
	sites[idx].apply(t)
	return d, cl + ": " + desc
}

func polOtherU32(old uint32, pool []uint32) []uint32 {
	var out []uint32
	for _, x := range pool {
		if x != old {
			out = append(out, x)
		}
	}
	return out
}

// polOtherPrefix returns a canonical prefix related to but different from p.
func polOtherPrefix(t *rapid.T, p Bits, label string) Bits {
	for tries := 0; tries < 8; tries++ {
		if q := GenRelative(t, p, label); q != p {
			return q
		}
	}
	if p.L < p.W {
		return p.WithLen(p.L + 1)
	}
	return p.WithLen(p.L - 1).Canon()
}

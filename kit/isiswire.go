package verifkit

// Independent IS-IS wire model (ISO 10589 §9 layouts, RFC 5303 three-way TLV).
// No bio-rd imports. Used by C30 (and the native fuzz seeds): builds valid
// PDUs byte by byte and parses bytes strictly, so that what bio-rd's
// serializers emit is judged by code that shares nothing with them.
//
// A PDU on the wire as bio-rd's Decode expects it:
//   3 bytes LLC (DSAP, SSAP, control) | 8 bytes common header | fixed part | TLVs

import (
	"encoding/binary"
	"fmt"
)

// PDU type codes (ISO 10589 §9.5–9.13).
const (
	ISISL1LANHello = 0x0f
	ISISL2LANHello = 0x10
	ISISP2PHello   = 0x11
	ISISL1LSP      = 0x12
	ISISL2LSP      = 0x14
	ISISL1CSNP     = 0x18
	ISISL2CSNP     = 0x19
	ISISL1PSNP     = 0x1a
	ISISL2PSNP     = 0x1b
)

// ISISFixedLen returns the length of the type-specific fixed part that follows
// the 8-byte common header, or -1 for an unknown PDU type.
func ISISFixedLen(pduType uint8) int {
	switch pduType {
	case ISISL1LANHello, ISISL2LANHello:
		return 19 // circuit type, source id(6), holding(2), pdu len(2), priority, lan id(7)
	case ISISP2PHello:
		return 12 // circuit type, source id(6), holding(2), pdu len(2), local circuit id
	case ISISL1LSP, ISISL2LSP:
		return 19 // pdu len(2), lifetime(2), lsp id(8), seq(4), checksum(2), type block
	case ISISL1CSNP, ISISL2CSNP:
		return 25 // pdu len(2), source id(7), start lsp id(8), end lsp id(8)
	case ISISL1PSNP, ISISL2PSNP:
		return 9 // pdu len(2), source id(7)
	}
	return -1
}

// ISISPDULenOffset returns the offset of the 2-byte PDU length field inside the
// fixed part, or -1.
func ISISPDULenOffset(pduType uint8) int {
	switch pduType {
	case ISISL1LANHello, ISISL2LANHello, ISISP2PHello:
		return 9
	case ISISL1LSP, ISISL2LSP, ISISL1CSNP, ISISL2CSNP, ISISL1PSNP, ISISL2PSNP:
		return 0
	}
	return -1
}

// ISISTLV is one TLV: Len is the *declared* length octet, Value the bytes that
// follow (len(Value) == Len in a well-formed PDU; builders may lie).
type ISISTLV struct {
	Type  uint8
	Len   uint8
	Value []byte
}

// NewISISTLV builds a well-formed TLV (value at most 255 bytes).
func NewISISTLV(typ uint8, value []byte) ISISTLV {
	if len(value) > 255 {
		panic("verifkit: TLV value longer than 255 bytes")
	}
	return ISISTLV{Type: typ, Len: uint8(len(value)), Value: append([]byte(nil), value...)}
}

func (t ISISTLV) String() string {
	return fmt.Sprintf("tlv(%d,len=%d,%x)", t.Type, t.Len, t.Value)
}

// ISISPDU is the wire model of one PDU.
type ISISPDU struct {
	LLC   [3]byte
	Hdr   [8]byte // discriminator, length indicator, id ext, id length, pdu type, version, reserved, max areas
	Fixed []byte
	TLVs  []ISISTLV
}

// PDUType returns the type octet of the common header.
func (p *ISISPDU) PDUType() uint8 { return p.Hdr[4] }

// Bytes renders the PDU (LLC included). Declared TLV lengths are written as
// they are, values as they are.
func (p *ISISPDU) Bytes() []byte {
	out := make([]byte, 0, 64)
	out = append(out, p.LLC[:]...)
	out = append(out, p.Hdr[:]...)
	out = append(out, p.Fixed...)
	for _, t := range p.TLVs {
		out = append(out, t.Type, t.Len)
		out = append(out, t.Value...)
	}
	return out
}

// TLVOffsets returns the offset (in Bytes()) of each TLV's type octet.
func (p *ISISPDU) TLVOffsets() []int {
	offs := make([]int, len(p.TLVs))
	o := 3 + 8 + len(p.Fixed)
	for i, t := range p.TLVs {
		offs[i] = o
		o += 2 + len(t.Value)
	}
	return offs
}

// FixPDULength sets the PDU length field to the real length (LLC excluded).
func (p *ISISPDU) FixPDULength() {
	off := ISISPDULenOffset(p.PDUType())
	if off < 0 || off+2 > len(p.Fixed) {
		return
	}
	n := 8 + len(p.Fixed)
	for _, t := range p.TLVs {
		n += 2 + len(t.Value)
	}
	binary.BigEndian.PutUint16(p.Fixed[off:], uint16(n))
}

// DeclaredPDULength reads the PDU length field (ok=false if the type has none).
func (p *ISISPDU) DeclaredPDULength() (int, bool) {
	off := ISISPDULenOffset(p.PDUType())
	if off < 0 || off+2 > len(p.Fixed) {
		return 0, false
	}
	return int(binary.BigEndian.Uint16(p.Fixed[off:])), true
}

// ParseISIS parses b strictly: LLC, header, the fixed part of a known PDU type
// and TLVs that tile the rest exactly. It does not interpret TLV values.
func ParseISIS(b []byte) (*ISISPDU, error) {
	if len(b) < 11 {
		return nil, fmt.Errorf("short: %d bytes, need 11 for LLC+header", len(b))
	}
	p := &ISISPDU{}
	copy(p.LLC[:], b[:3])
	copy(p.Hdr[:], b[3:11])
	fl := ISISFixedLen(p.PDUType())
	if fl < 0 {
		return nil, fmt.Errorf("unknown PDU type %#x", p.PDUType())
	}
	rest := b[11:]
	if len(rest) < fl {
		return nil, fmt.Errorf("fixed part truncated: %d of %d bytes", len(rest), fl)
	}
	p.Fixed = append([]byte(nil), rest[:fl]...)
	rest = rest[fl:]
	for len(rest) > 0 {
		if len(rest) < 2 {
			return nil, fmt.Errorf("dangling byte after TLV %d", len(p.TLVs))
		}
		typ, l := rest[0], int(rest[1])
		if len(rest) < 2+l {
			return nil, fmt.Errorf("TLV %d (type %d) declares %d bytes, %d left", len(p.TLVs), typ, l, len(rest)-2)
		}
		p.TLVs = append(p.TLVs, ISISTLV{Type: typ, Len: uint8(l), Value: append([]byte(nil), rest[2:2+l]...)})
		rest = rest[2+l:]
	}
	return p, nil
}

// ISISSamplePDUs returns a few hand-built valid PDUs (seeds for fuzzing).
func ISISSamplePDUs() [][]byte {
	llc := [3]byte{0xfe, 0xfe, 0x03}
	hdr := func(typ uint8, li uint8) [8]byte { return [8]byte{0x83, li, 1, 0, typ, 1, 0, 0} }
	sys := []byte{12, 12, 12, 13, 13, 13}
	var out [][]byte
	// P2P hello with the four TLVs bio-rd sends
	h := &ISISPDU{LLC: llc, Hdr: hdr(ISISP2PHello, 20)}
	h.Fixed = append([]byte{2}, sys...)
	h.Fixed = append(h.Fixed, 0, 16, 0, 0, 1)
	h.TLVs = []ISISTLV{
		NewISISTLV(240, []byte{1, 0, 0, 0, 7, 0xde, 0xad, 0xbe, 0xef, 0xff, 1, 0, 0, 0, 100}),
		NewISISTLV(129, []byte{0xcc, 0x8e}),
		NewISISTLV(132, []byte{169, 254, 100, 0}),
		NewISISTLV(1, []byte{2, 0x49, 0}),
	}
	h.FixPDULength()
	out = append(out, h.Bytes())
	// L2 LSP
	l := &ISISPDU{LLC: llc, Hdr: hdr(ISISL2LSP, 27)}
	l.Fixed = []byte{0, 0, 7, 8}
	l.Fixed = append(l.Fixed, sys...)
	l.Fixed = append(l.Fixed, 0, 0, 0, 0, 0, 3, 0x58, 0x79, 3)
	l.TLVs = []ISISTLV{
		NewISISTLV(1, []byte{2, 0x49, 0}),
		NewISISTLV(129, []byte{0xcc, 0x8e}),
		NewISISTLV(132, []byte{169, 254, 100, 0}),
		NewISISTLV(135, []byte{0, 0, 0, 10, 31, 169, 254, 100, 0}),
		NewISISTLV(22, []byte{0xde, 0xad, 0xbe, 0xef, 0xff, 1, 0, 0, 0, 10, 0}),
		NewISISTLV(137, []byte("router")),
		NewISISTLV(12, []byte{0xab, 0xcd}),
		NewISISTLV(6, []byte{1, 2, 3, 4, 5, 6}),
	}
	l.FixPDULength()
	out = append(out, l.Bytes())
	entry := func(i byte) []byte {
		e := []byte{0, 100}
		e = append(e, sys...)
		e = append(e, i, 0, 0, 0, 0, i, 0x11, 0x22)
		return e
	}
	// L2 CSNP with two entries
	c := &ISISPDU{LLC: llc, Hdr: hdr(ISISL2CSNP, 33)}
	c.Fixed = append([]byte{0, 0}, sys...)
	c.Fixed = append(c.Fixed, 0)
	c.Fixed = append(c.Fixed, make([]byte, 8)...)
	c.Fixed = append(c.Fixed, 0xff, 0xff, 0xff, 0xff, 0xff, 0xff, 0xff, 0xff)
	c.TLVs = []ISISTLV{NewISISTLV(9, append(entry(1), entry(2)...))}
	c.FixPDULength()
	out = append(out, c.Bytes())
	// L2 PSNP with one entry
	s := &ISISPDU{LLC: llc, Hdr: hdr(ISISL2PSNP, 17)}
	s.Fixed = append([]byte{0, 0}, sys...)
	s.Fixed = append(s.Fixed, 0)
	s.TLVs = []ISISTLV{NewISISTLV(9, entry(3))}
	s.FixPDULength()
	out = append(out, s.Bytes())
	// L2 LAN hello (header only for Decode, full for DecodeL2Hello)
	lh := &ISISPDU{LLC: llc, Hdr: hdr(ISISL2LANHello, 27)}
	lh.Fixed = append([]byte{2}, sys...)
	lh.Fixed = append(lh.Fixed, 0, 30, 0, 0, 64)
	lh.Fixed = append(lh.Fixed, sys...)
	lh.Fixed = append(lh.Fixed, 1)
	lh.TLVs = []ISISTLV{NewISISTLV(6, []byte{1, 2, 3, 4, 5, 6}), NewISISTLV(8, make([]byte, 20))}
	lh.FixPDULength()
	out = append(out, lh.Bytes())
	return out
}

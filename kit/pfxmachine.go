package verifkit

import (
	"pgregory.net/rapid"
)

// PfxTableOps is a table under test driven by the C01 machine: lookups
// (PfxTable) plus the mutating operations, all in model terms. `fresh` asks the
// adapter to pass a newly built, value-equal path object instead of the one
// used at insertion (withdrawals in bio-rd are built from the wire, so the
// table must remove by value).
type PfxTableOps interface {
	PfxTable
	Add(p Bits, id int)
	Remove(p Bits, id int, fresh bool)
	ReplaceAll(p Bits, id int)                  // RoutingTable.ReplacePath
	ReplaceOne(p Bits, old, id int, fresh bool) // LocRIB.ReplacePath
	RemovePfx(p Bits)                           // RoutingTable.RemovePfx
}

// PfxCaps lists the optional operations the table offers.
type PfxCaps struct {
	ReplaceAll, ReplaceOne, RemovePfx bool
}

// PfxMachineRule is the generation / non-triviality rule of RunPfxMachine.
const PfxMachineRule = "history of <=40 (thorough <=100) operations add/remove(present or absent, same or value-equal path object)/replace/remove-prefix over a universe of 2..12 (thorough ..20) related canonical prefixes of one family (shared stems, covering, one-bit siblings, boundary lengths) and 4 distinguishable static paths; after every operation Get/LPM/GetLonger of every universe member (stored or not), Dump and route count are compared with a map[prefix][]path model whose containment is computed on bit strings. Non-trivial: a removal that emptied a prefix followed by the insertion of a covering or sibling (shared stem, incomparable) prefix, or a GetLonger query for a prefix that is not stored while more-specifics are, or a stored IPv6 prefix longer than /32."

func related(p, r Bits) bool {
	if SamePrefix(p, r) {
		return false
	}
	if StrictlyCovers(p, r) {
		return true
	}
	if Covers(r, p) {
		return false
	}
	m := p.L
	if r.L < m {
		m = r.L
	}
	return CommonLen(p, r, m) >= 1
}

// RunPfxMachine draws one operation history and checks tbl against the model
// after every step. It calls t.Fatalf on the first disagreement.
func RunPfxMachine(t *rapid.T, c *Case, w int, tbl PfxTableOps, caps PfxCaps) {
	n := rapid.IntRange(2, Scale(12, 20)).Draw(t, "universe")
	raw := GenUniverse(t, w, n, "u")
	seen := map[string]struct{}{}
	u := make([]Bits, 0, len(raw))
	for _, b := range raw {
		if _, ok := seen[b.Key()]; ok {
			continue
		}
		seen[b.Key()] = struct{}{}
		u = append(u, b)
	}
	c.Logf("w=%d universe=%v", w, u)
	c.ClassIf(w == 32, "v4")
	c.ClassIf(w == 128, "v6")
	ops := []string{"add", "add", "add", "add", "remove", "remove", "remove"}
	if caps.ReplaceAll {
		ops = append(ops, "replaceall")
	}
	if caps.ReplaceOne {
		ops = append(ops, "replaceone")
	}
	if caps.RemovePfx {
		ops = append(ops, "removepfx", "removepfx")
	}
	m := NewPfxModel()
	var emptied []Bits // prefixes that stopped being stored through a removal
	noteInsert := func(p Bits) {
		c.ClassIf(p.L == 0, "default_route_stored")
		c.ClassIf(p.L == w, "host_route_stored")
		c.ClassIf(w == 128 && p.L > 32, "v6_len>32_stored")
		c.ClassIf(w == 128 && p.L > 64, "v6_len>64_stored")
		c.NonTrivialIf(w == 128 && p.L > 32)
		for _, r := range emptied {
			if related(p, r) {
				c.Class("remove_then_cover_or_sibling")
				c.NonTrivial()
			}
		}
	}
	if msg := CheckPfxTable(m, tbl, u); msg != "" {
		t.Fatalf("empty table: %s", msg)
	}
	steps := rapid.IntRange(1, Scale(40, 100)).Draw(t, "steps")
	for s := 0; s < steps; s++ {
		op := rapid.SampledFrom(ops).Draw(t, "op")
		p := u[rapid.IntRange(0, len(u)-1).Draw(t, "pfx")]
		id := rapid.IntRange(0, 3).Draw(t, "path")
		switch op {
		case "add":
			if m.HasPath(p, id) {
				// precondition kept by every caller: no value-equal duplicate path per prefix;
				// turn the step into a removal of that path instead
				fresh := rapid.Bool().Draw(t, "fresh")
				c.Logf("%d remove %v path%d fresh=%v", s, p, id, fresh)
				tbl.Remove(p, id, fresh)
				if m.Remove(p, id) {
					emptied = append(emptied, p)
				}
				break
			}
			c.Logf("%d add %v path%d", s, p, id)
			was := m.Has(p)
			tbl.Add(p, id)
			m.Add(p, id)
			if !was {
				noteInsert(p)
			}
		case "remove":
			fresh := rapid.Bool().Draw(t, "fresh")
			c.Logf("%d remove %v path%d fresh=%v", s, p, id, fresh)
			c.ClassIf(!m.Has(p), "remove_absent_prefix")
			c.ClassIf(m.Has(p) && !m.HasPath(p, id), "remove_absent_path")
			tbl.Remove(p, id, fresh)
			if m.Remove(p, id) {
				emptied = append(emptied, p)
			}
		case "replaceall":
			c.Logf("%d replaceall %v path%d", s, p, id)
			was := m.Has(p)
			tbl.ReplaceAll(p, id)
			m.Replace(p, id)
			if !was {
				noteInsert(p)
			}
		case "replaceone":
			old := rapid.IntRange(0, 3).Draw(t, "old")
			if old != id && m.HasPath(p, id) {
				old = id // would create a value-equal duplicate: replace the path by itself instead
			}
			fresh := rapid.Bool().Draw(t, "fresh")
			c.Logf("%d replaceone %v path%d->path%d fresh=%v", s, p, old, id, fresh)
			tbl.ReplaceOne(p, old, id, fresh)
			m.ReplaceOne(p, old, id)
		case "removepfx":
			c.Logf("%d removepfx %v", s, p)
			c.ClassIf(!m.Has(p), "removepfx_absent")
			tbl.RemovePfx(p)
			if m.RemovePfx(p) {
				emptied = append(emptied, p)
			}
		}
		for _, q := range u {
			if !m.Has(q) && len(m.Longer(q)) > 0 {
				c.Class("getlonger_absent_query_with_more_specifics")
				c.NonTrivial()
				break
			}
		}
		if msg := CheckPfxTable(m, tbl, u); msg != "" {
			t.Fatalf("after step %d: %s\nhistory:\n%s", s, msg, c.String())
		}
	}
}

package verifkit

import (
	"bytes"
	"testing"
)

func TestWireRoundTrip(t *testing.T) {
	o := WOpts{AddPath4: true, ASN4: true, AddPath6: true}
	u := &WUpdate{
		Withdrawn: []WNLRI{{P: V4(0x0a000000, 8), PathID: 7, HasID: true}},
		NLRI:      []WNLRI{{P: V4(0xc0a80100, 24), PathID: 1, HasID: true}, {P: V4(0, 0), PathID: 2, HasID: true}},
		Attrs: []WAttr{AttrOrigin(0), AttrASPath([]WSeg{{2, []uint32{65000, 4200000000}}, {1, []uint32{1, 2}}}, true), AttrNextHop([4]byte{1, 2, 3, 4}),
			AttrMED(5), AttrLocalPref(100), AttrCommunities([]uint32{1, 2}), AttrOriginatorID(9), AttrClusterList([]uint32{3, 4}),
			AttrLargeCommunities([][3]uint32{{1, 2, 3}}), AttrOTC(77), AttrAggregator(65000, [4]byte{9, 9, 9, 9}, true), AttrAtomicAggr(),
			AttrMPReach(WMP{AFI: 2, SAFI: 1, NextHop: make([]byte, 16), NLRI: []WNLRI{{P: V6(0x20010db800000000, 0, 33), PathID: 5, HasID: true}}}, true),
			AttrMPUnreach(WMP{AFI: 2, SAFI: 1, NLRI: []WNLRI{{P: V6(0x20010db800000000, 0, 128), PathID: 6, HasID: true}}}, true),
			{Flags: FlOptional | FlTransitive, Type: 99, Value: bytes.Repeat([]byte{1}, 300)}},
	}
	m := u.Build(o, nil)
	typ, body, e := ParseHeader(m)
	if e != nil || typ != MsgUpdate {
		t.Fatal(e)
	}
	p, e := ParseUpdate(body, o)
	if e != nil {
		t.Fatal(e)
	}
	if len(p.NLRI) != 2 || p.NLRI[0].PathID != 1 || p.NLRI[0].P != V4(0xc0a80100, 24) || len(p.Withdrawn) != 1 || *p.OTC != 77 || len(p.ASPath) != 2 || p.ASPath[0].ASNs[1] != 4200000000 ||
		p.MPReach.NLRI[0].P.L != 33 || p.MPUnreach.NLRI[0].PathID != 6 || len(p.Unknown) != 1 || len(p.Unknown[0].Value) != 300 || *p.AggrASN != 65000 || !p.AtomicAggr || len(p.LargeComm) != 1 {
		t.Fatalf("%+v", p)
	}
	msgs, rest := SplitStream(append(append([]byte{}, m...), Keepalive()...))
	if len(msgs) != 2 || len(rest) != 0 {
		t.Fatal("split")
	}
	op := &WOpen{Version: 4, AS: 23456, HoldTime: 90, ID: 1, Caps: []WCap{CapMP(1, 1), CapASN4(4200000000), CapAddPath([3]uint16{1, 1, 3}), CapRole(2)}}
	for _, one := range []bool{false, true} {
		op.OneParamPerCap = one
		_, b, e := ParseHeader(op.Build())
		if e != nil {
			t.Fatal(e)
		}
		q, e := ParseOpen(b)
		if e != nil || len(q.Caps) != 4 || q.AS != 23456 || q.HoldTime != 90 {
			t.Fatal(e, q)
		}
	}
	// malformed: nlri prefix length 33
	bad := &WUpdate{NLRI: []WNLRI{{P: Bits{W: 32, L: 33}}}, Attrs: []WAttr{AttrOrigin(0), AttrASPath(nil, true), AttrNextHop([4]byte{1, 1, 1, 1})}}
	_, body, _ = ParseHeader(bad.Build(WOpts{ASN4: true}, nil))
	if _, e := ParseUpdate(body, WOpts{ASN4: true}); e == nil || e.Clause != "nlri-pfxlen" {
		t.Fatal(e)
	}
}

package verifkit

// Independent BGP-4 wire builder and strict reference parser (RFC 4271, 4760,
// 7911, 4456, 6793, 8092, 9234). Plain structs, no bio-rd imports. The parser
// is the oracle's view of what is on the wire; the builder produces valid
// messages (and, through raw fields, deliberately invalid ones).

import (
	"encoding/binary"
	"fmt"
)

// Message types.
const (
	MsgOpen         = 1
	MsgUpdate       = 2
	MsgNotification = 3
	MsgKeepalive    = 4
)

// Attribute type codes.
const (
	AtOrigin       = 1
	AtASPath       = 2
	AtNextHop      = 3
	AtMED          = 4
	AtLocalPref    = 5
	AtAtomicAggr   = 6
	AtAggregator   = 7
	AtCommunities  = 8
	AtOriginatorID = 9
	AtClusterList  = 10
	AtMPReach      = 14
	AtMPUnreach    = 15
	AtAS4Path      = 17
	AtAS4Aggr      = 18
	AtLargeComm    = 32
	AtOTC          = 35
)

// Attribute flag bits.
const (
	FlOptional   = 0x80
	FlTransitive = 0x40
	FlPartial    = 0x20
	FlExtLen     = 0x10
)

// WErr is a parse error; Clause names the rule that was violated.
type WErr struct {
	Clause string
	Msg    string
}

func (e *WErr) Error() string { return e.Clause + ": " + e.Msg }

func werr(clause, format string, args ...interface{}) *WErr {
	return &WErr{Clause: clause, Msg: fmt.Sprintf(format, args...)}
}

// WOpts are the negotiated encoding options of a session direction.
type WOpts struct {
	AddPath4 bool // path identifiers on IPv4 unicast NLRI
	AddPath6 bool // path identifiers on IPv6 unicast NLRI
	ASN4     bool // 4-octet AS numbers in AS_PATH / AGGREGATOR
}

// WNLRI is one NLRI entry.
type WNLRI struct {
	P      Bits
	PathID uint32
	HasID  bool
}

func (n WNLRI) String() string {
	if n.HasID {
		return fmt.Sprintf("%v#%d", n.P, n.PathID)
	}
	return n.P.String()
}

// WSeg is an AS_PATH segment (Type 1 = SET, 2 = SEQUENCE).
type WSeg struct {
	Type uint8
	ASNs []uint32
}

// WAttr is a raw path attribute.
type WAttr struct {
	Flags uint8
	Type  uint8
	Value []byte
	// RawLen, when non-nil, overrides the declared length on Build (for
	// building malformed messages).
	RawLen *int
}

// WMP is an MP_REACH_NLRI / MP_UNREACH_NLRI attribute.
type WMP struct {
	AFI     uint16
	SAFI    uint8
	NextHop []byte // MP_REACH only
	NLRI    []WNLRI
}

// WUpdate is a parsed (or to-be-built) UPDATE.
type WUpdate struct {
	Withdrawn []WNLRI
	Attrs     []WAttr // raw, in wire order
	NLRI      []WNLRI

	// Parsed views (filled by ParseUpdate).
	Origin       *uint8
	HasASPath    bool
	ASPath       []WSeg
	NextHop      []byte
	MED          *uint32
	LocalPref    *uint32
	AtomicAggr   bool
	AggrASN      *uint32
	AggrAddr     []byte
	Communities  []uint32
	HasComm      bool
	OriginatorID *uint32
	HasCluster   bool
	ClusterList  []uint32
	LargeComm    [][3]uint32
	HasLarge     bool
	OTC          *uint32
	MPReach      *WMP
	MPUnreach    *WMP
	Unknown      []WAttr
}

// ---------------------------------------------------------------------------
// building

// Header wraps a body into a BGP message.
func Header(typ uint8, body []byte) []byte {
	b := make([]byte, 19+len(body))
	for i := 0; i < 16; i++ {
		b[i] = 0xff
	}
	binary.BigEndian.PutUint16(b[16:], uint16(19+len(body)))
	b[18] = typ
	copy(b[19:], body)
	return b
}

// Keepalive returns a KEEPALIVE message.
func Keepalive() []byte { return Header(MsgKeepalive, nil) }

// Notification returns a NOTIFICATION message.
func Notification(code, sub uint8, data []byte) []byte {
	return Header(MsgNotification, append([]byte{code, sub}, data...))
}

// EncodeNLRI encodes one NLRI entry.
func EncodeNLRI(n WNLRI, addPath bool) []byte {
	var b []byte
	if addPath {
		b = binary.BigEndian.AppendUint32(b, n.PathID)
	}
	b = append(b, byte(n.P.L))
	nb := (n.P.L + 7) / 8
	b = append(b, n.P.A[:nb]...)
	return b
}

// EncodeNLRIs encodes a list.
func EncodeNLRIs(ns []WNLRI, addPath bool) []byte {
	var b []byte
	for _, n := range ns {
		b = append(b, EncodeNLRI(n, addPath)...)
	}
	return b
}

// Encode serializes one attribute (extended length chosen when needed or
// when the flag is already set).
func (a WAttr) Encode() []byte {
	l := len(a.Value)
	if a.RawLen != nil {
		l = *a.RawLen
	}
	fl := a.Flags
	if l > 255 {
		fl |= FlExtLen
	}
	b := []byte{fl, a.Type}
	if fl&FlExtLen != 0 {
		b = binary.BigEndian.AppendUint16(b, uint16(l))
	} else {
		b = append(b, byte(l))
	}
	return append(b, a.Value...)
}

func AttrOrigin(v uint8) WAttr { return WAttr{Flags: FlTransitive, Type: AtOrigin, Value: []byte{v}} }

func AttrASPath(segs []WSeg, asn4 bool) WAttr {
	var v []byte
	for _, s := range segs {
		v = append(v, s.Type, byte(len(s.ASNs)))
		for _, a := range s.ASNs {
			if asn4 {
				v = binary.BigEndian.AppendUint32(v, a)
			} else {
				v = binary.BigEndian.AppendUint16(v, uint16(a))
			}
		}
	}
	return WAttr{Flags: FlTransitive, Type: AtASPath, Value: v}
}

func AttrNextHop(ip [4]byte) WAttr {
	return WAttr{Flags: FlTransitive, Type: AtNextHop, Value: ip[:]}
}

func u32(v uint32) []byte { return binary.BigEndian.AppendUint32(nil, v) }

func AttrMED(v uint32) WAttr { return WAttr{Flags: FlOptional, Type: AtMED, Value: u32(v)} }
func AttrLocalPref(v uint32) WAttr {
	return WAttr{Flags: FlTransitive, Type: AtLocalPref, Value: u32(v)}
}
func AttrAtomicAggr() WAttr { return WAttr{Flags: FlTransitive, Type: AtAtomicAggr} }
func AttrOriginatorID(v uint32) WAttr {
	return WAttr{Flags: FlOptional, Type: AtOriginatorID, Value: u32(v)}
}
func AttrOTC(v uint32) WAttr {
	return WAttr{Flags: FlOptional | FlTransitive, Type: AtOTC, Value: u32(v)}
}

func AttrAggregator(asn uint32, addr [4]byte, asn4 bool) WAttr {
	var v []byte
	if asn4 {
		v = u32(asn)
	} else {
		v = binary.BigEndian.AppendUint16(nil, uint16(asn))
	}
	return WAttr{Flags: FlOptional | FlTransitive, Type: AtAggregator, Value: append(v, addr[:]...)}
}

func AttrCommunities(cs []uint32) WAttr {
	var v []byte
	for _, c := range cs {
		v = append(v, u32(c)...)
	}
	return WAttr{Flags: FlOptional | FlTransitive, Type: AtCommunities, Value: v}
}

func AttrClusterList(cs []uint32) WAttr {
	var v []byte
	for _, c := range cs {
		v = append(v, u32(c)...)
	}
	return WAttr{Flags: FlOptional, Type: AtClusterList, Value: v}
}

func AttrLargeCommunities(cs [][3]uint32) WAttr {
	var v []byte
	for _, c := range cs {
		v = append(v, u32(c[0])...)
		v = append(v, u32(c[1])...)
		v = append(v, u32(c[2])...)
	}
	return WAttr{Flags: FlOptional | FlTransitive, Type: AtLargeComm, Value: v}
}

// AttrMPReach builds MP_REACH_NLRI.
func AttrMPReach(m WMP, addPath bool) WAttr {
	v := binary.BigEndian.AppendUint16(nil, m.AFI)
	v = append(v, m.SAFI, byte(len(m.NextHop)))
	v = append(v, m.NextHop...)
	v = append(v, 0)
	v = append(v, EncodeNLRIs(m.NLRI, addPath)...)
	return WAttr{Flags: FlOptional, Type: AtMPReach, Value: v}
}

// AttrMPUnreach builds MP_UNREACH_NLRI.
func AttrMPUnreach(m WMP, addPath bool) WAttr {
	v := binary.BigEndian.AppendUint16(nil, m.AFI)
	v = append(v, m.SAFI)
	v = append(v, EncodeNLRIs(m.NLRI, addPath)...)
	return WAttr{Flags: FlOptional, Type: AtMPUnreach, Value: v}
}

// RawUpdate holds optional overrides of the declared section lengths.
type RawUpdate struct {
	WithdrawnLen *int
	AttrLen      *int
	HeaderLen    *int
}

// BuildBody builds the UPDATE body from Withdrawn, Attrs (raw) and NLRI.
func (u *WUpdate) BuildBody(o WOpts, raw *RawUpdate) []byte {
	w := EncodeNLRIs(u.Withdrawn, o.AddPath4)
	var at []byte
	for _, a := range u.Attrs {
		at = append(at, a.Encode()...)
	}
	wl, al := len(w), len(at)
	if raw != nil && raw.WithdrawnLen != nil {
		wl = *raw.WithdrawnLen
	}
	if raw != nil && raw.AttrLen != nil {
		al = *raw.AttrLen
	}
	b := binary.BigEndian.AppendUint16(nil, uint16(wl))
	b = append(b, w...)
	b = binary.BigEndian.AppendUint16(b, uint16(al))
	b = append(b, at...)
	b = append(b, EncodeNLRIs(u.NLRI, o.AddPath4)...)
	return b
}

// Build builds the complete UPDATE message.
func (u *WUpdate) Build(o WOpts, raw *RawUpdate) []byte {
	m := Header(MsgUpdate, u.BuildBody(o, raw))
	if raw != nil && raw.HeaderLen != nil {
		binary.BigEndian.PutUint16(m[16:], uint16(*raw.HeaderLen))
	}
	return m
}

// ---------------------------------------------------------------------------
// parsing

// SplitStream cuts a byte stream into BGP messages using the header length
// field. It stops at the first header it cannot accept (rest returned).
func SplitStream(b []byte) (msgs [][]byte, rest []byte) {
	for len(b) >= 19 {
		l := int(binary.BigEndian.Uint16(b[16:]))
		if l < 19 || l > 4096 || l > len(b) {
			break
		}
		for i := 0; i < 16; i++ {
			if b[i] != 0xff {
				return msgs, b
			}
		}
		msgs = append(msgs, b[:l])
		b = b[l:]
	}
	return msgs, b
}

// ParseHeader validates a complete message's header (RFC 4271 §4.1/§6.1) and
// returns type and body.
func ParseHeader(m []byte) (typ uint8, body []byte, err *WErr) {
	if len(m) < 19 {
		return 0, nil, werr("hdr-short", "message of %d bytes", len(m))
	}
	for i := 0; i < 16; i++ {
		if m[i] != 0xff {
			return 0, nil, werr("hdr-marker", "marker byte %d is %#x", i, m[i])
		}
	}
	l := int(binary.BigEndian.Uint16(m[16:]))
	if l < 19 || l > 4096 {
		return 0, nil, werr("hdr-len", "length %d", l)
	}
	if l != len(m) {
		return 0, nil, werr("hdr-len-mismatch", "declared %d, have %d", l, len(m))
	}
	typ = m[18]
	if typ < 1 || typ > 4 {
		return typ, nil, werr("hdr-type", "type %d", typ)
	}
	switch typ {
	case MsgKeepalive:
		if l != 19 {
			return typ, nil, werr("hdr-len", "KEEPALIVE of length %d", l)
		}
	case MsgOpen:
		if l < 29 {
			return typ, nil, werr("hdr-len", "OPEN of length %d", l)
		}
	case MsgUpdate:
		if l < 23 {
			return typ, nil, werr("hdr-len", "UPDATE of length %d", l)
		}
	case MsgNotification:
		if l < 21 {
			return typ, nil, werr("hdr-len", "NOTIFICATION of length %d", l)
		}
	}
	return typ, m[19:], nil
}

func parseNLRIs(b []byte, w int, addPath bool, what string) ([]WNLRI, *WErr) {
	var out []WNLRI
	for len(b) > 0 {
		var n WNLRI
		if addPath {
			if len(b) < 4 {
				return out, werr("nlri-overrun", "%s: truncated path identifier", what)
			}
			n.PathID = binary.BigEndian.Uint32(b)
			n.HasID = true
			b = b[4:]
			if len(b) == 0 {
				return out, werr("nlri-overrun", "%s: path identifier without prefix", what)
			}
		}
		l := int(b[0])
		b = b[1:]
		if l > w {
			return out, werr("nlri-pfxlen", "%s: prefix length %d > %d", what, l, w)
		}
		nb := (l + 7) / 8
		if len(b) < nb {
			return out, werr("nlri-overrun", "%s: prefix needs %d bytes, %d left", what, nb, len(b))
		}
		n.P.W = w
		n.P.L = l
		copy(n.P.A[:], b[:nb])
		b = b[nb:]
		out = append(out, n)
	}
	return out, nil
}

func afiWidth(afi uint16) int {
	switch afi {
	case 1:
		return 32
	case 2:
		return 128
	}
	return 0
}

// ParseUpdate strictly parses an UPDATE body.
func ParseUpdate(body []byte, o WOpts) (*WUpdate, *WErr) {
	u := &WUpdate{}
	if len(body) < 4 {
		return u, werr("upd-lengths", "body of %d bytes", len(body))
	}
	wl := int(binary.BigEndian.Uint16(body))
	if 2+wl+2 > len(body) {
		return u, werr("upd-lengths", "withdrawn routes length %d exceeds body %d", wl, len(body))
	}
	al := int(binary.BigEndian.Uint16(body[2+wl:]))
	if 2+wl+2+al > len(body) {
		return u, werr("upd-lengths", "withdrawn %d + attributes %d exceed body %d", wl, al, len(body))
	}
	var e *WErr
	u.Withdrawn, e = parseNLRIs(body[2:2+wl], 32, o.AddPath4, "withdrawn")
	if e != nil {
		return u, e
	}
	attrs := body[4+wl : 4+wl+al]
	nlri := body[4+wl+al:]
	seen := map[uint8]bool{}
	for len(attrs) > 0 {
		if len(attrs) < 3 {
			return u, werr("attr-overrun", "truncated attribute header")
		}
		a := WAttr{Flags: attrs[0], Type: attrs[1]}
		var l int
		if a.Flags&FlExtLen != 0 {
			if len(attrs) < 4 {
				return u, werr("attr-overrun", "truncated extended length")
			}
			l = int(binary.BigEndian.Uint16(attrs[2:]))
			attrs = attrs[4:]
		} else {
			l = int(attrs[2])
			attrs = attrs[3:]
		}
		if l > len(attrs) {
			return u, werr("attr-overrun", "attribute %d declares %d bytes, %d left", a.Type, l, len(attrs))
		}
		a.Value = attrs[:l]
		attrs = attrs[l:]
		if seen[a.Type] {
			return u, werr("attr-dup", "attribute %d twice", a.Type)
		}
		seen[a.Type] = true
		u.Attrs = append(u.Attrs, a)
		if e := u.parseAttr(a, o); e != nil {
			return u, e
		}
	}
	u.NLRI, e = parseNLRIs(nlri, 32, o.AddPath4, "nlri")
	if e != nil {
		return u, e
	}
	if len(u.NLRI) > 0 {
		if u.Origin == nil || !u.HasASPath || u.NextHop == nil {
			return u, werr("missing-wellknown", "NLRI present but ORIGIN=%v AS_PATH=%v NEXT_HOP=%v", u.Origin != nil, u.HasASPath, u.NextHop != nil)
		}
	}
	if u.MPReach != nil && len(u.MPReach.NLRI) > 0 {
		if u.Origin == nil || !u.HasASPath {
			return u, werr("missing-wellknown", "MP_REACH NLRI present but ORIGIN=%v AS_PATH=%v", u.Origin != nil, u.HasASPath)
		}
		if len(u.MPReach.NextHop) == 0 {
			return u, werr("missing-wellknown", "MP_REACH NLRI without next hop")
		}
	}
	return u, nil
}

func fixedLen(a WAttr, n int) *WErr {
	if len(a.Value) != n {
		return werr("attr-len", "attribute %d has length %d, must be %d", a.Type, len(a.Value), n)
	}
	return nil
}

func (u *WUpdate) parseAttr(a WAttr, o WOpts) *WErr {
	v := a.Value
	switch a.Type {
	case AtOrigin:
		if e := fixedLen(a, 1); e != nil {
			return e
		}
		x := v[0]
		u.Origin = &x
	case AtASPath:
		u.HasASPath = true
		sz := 2
		if o.ASN4 {
			sz = 4
		}
		for len(v) > 0 {
			if len(v) < 2 {
				return werr("aspath", "truncated segment header")
			}
			s := WSeg{Type: v[0]}
			n := int(v[1])
			v = v[2:]
			if s.Type != 1 && s.Type != 2 {
				return werr("aspath", "segment type %d", s.Type)
			}
			if n*sz > len(v) {
				return werr("aspath", "segment of %d ASNs overruns attribute (%d bytes left)", n, len(v))
			}
			for i := 0; i < n; i++ {
				if sz == 4 {
					s.ASNs = append(s.ASNs, binary.BigEndian.Uint32(v[i*4:]))
				} else {
					s.ASNs = append(s.ASNs, uint32(binary.BigEndian.Uint16(v[i*2:])))
				}
			}
			v = v[n*sz:]
			u.ASPath = append(u.ASPath, s)
		}
	case AtNextHop:
		if e := fixedLen(a, 4); e != nil {
			return e
		}
		u.NextHop = append([]byte{}, v...)
	case AtMED:
		if e := fixedLen(a, 4); e != nil {
			return e
		}
		x := binary.BigEndian.Uint32(v)
		u.MED = &x
	case AtLocalPref:
		if e := fixedLen(a, 4); e != nil {
			return e
		}
		x := binary.BigEndian.Uint32(v)
		u.LocalPref = &x
	case AtAtomicAggr:
		if e := fixedLen(a, 0); e != nil {
			return e
		}
		u.AtomicAggr = true
	case AtAggregator:
		n := 6
		if o.ASN4 {
			n = 8
		}
		if e := fixedLen(a, n); e != nil {
			return e
		}
		var asn uint32
		if o.ASN4 {
			asn = binary.BigEndian.Uint32(v)
		} else {
			asn = uint32(binary.BigEndian.Uint16(v))
		}
		u.AggrASN = &asn
		u.AggrAddr = append([]byte{}, v[n-4:]...)
	case AtCommunities:
		if len(v)%4 != 0 {
			return werr("attr-len", "COMMUNITIES length %d", len(v))
		}
		u.HasComm = true
		for i := 0; i < len(v); i += 4 {
			u.Communities = append(u.Communities, binary.BigEndian.Uint32(v[i:]))
		}
	case AtOriginatorID:
		if e := fixedLen(a, 4); e != nil {
			return e
		}
		x := binary.BigEndian.Uint32(v)
		u.OriginatorID = &x
	case AtClusterList:
		if len(v)%4 != 0 {
			return werr("attr-len", "CLUSTER_LIST length %d", len(v))
		}
		u.HasCluster = true
		for i := 0; i < len(v); i += 4 {
			u.ClusterList = append(u.ClusterList, binary.BigEndian.Uint32(v[i:]))
		}
	case AtLargeComm:
		if len(v)%12 != 0 {
			return werr("attr-len", "LARGE_COMMUNITIES length %d", len(v))
		}
		u.HasLarge = true
		for i := 0; i < len(v); i += 12 {
			u.LargeComm = append(u.LargeComm, [3]uint32{binary.BigEndian.Uint32(v[i:]), binary.BigEndian.Uint32(v[i+4:]), binary.BigEndian.Uint32(v[i+8:])})
		}
	case AtOTC:
		if e := fixedLen(a, 4); e != nil {
			return e
		}
		x := binary.BigEndian.Uint32(v)
		u.OTC = &x
	case AtMPReach:
		if len(v) < 5 {
			return werr("attr-len", "MP_REACH_NLRI of %d bytes", len(v))
		}
		m := &WMP{AFI: binary.BigEndian.Uint16(v), SAFI: v[2]}
		nhl := int(v[3])
		if 4+nhl+1 > len(v) {
			return werr("attr-len", "MP_REACH_NLRI next hop length %d overruns attribute", nhl)
		}
		m.NextHop = append([]byte{}, v[4:4+nhl]...)
		rest := v[4+nhl+1:]
		w := afiWidth(m.AFI)
		if w != 0 && m.SAFI == 1 {
			ap := (m.AFI == 1 && o.AddPath4) || (m.AFI == 2 && o.AddPath6)
			var e *WErr
			m.NLRI, e = parseNLRIs(rest, w, ap, "mp_reach")
			if e != nil {
				return e
			}
		}
		u.MPReach = m
	case AtMPUnreach:
		if len(v) < 3 {
			return werr("attr-len", "MP_UNREACH_NLRI of %d bytes", len(v))
		}
		m := &WMP{AFI: binary.BigEndian.Uint16(v), SAFI: v[2]}
		w := afiWidth(m.AFI)
		if w != 0 && m.SAFI == 1 {
			ap := (m.AFI == 1 && o.AddPath4) || (m.AFI == 2 && o.AddPath6)
			var e *WErr
			m.NLRI, e = parseNLRIs(v[3:], w, ap, "mp_unreach")
			if e != nil {
				return e
			}
		}
		u.MPUnreach = m
	default:
		u.Unknown = append(u.Unknown, a)
	}
	return nil
}

// ---------------------------------------------------------------------------
// OPEN

// WCap is one capability (RFC 5492).
type WCap struct {
	Code  uint8
	Value []byte
}

// WOpen is an OPEN message.
type WOpen struct {
	Version  uint8
	AS       uint16
	HoldTime uint16
	ID       uint32
	Caps     []WCap
	// OneParamPerCap: encode each capability in its own optional parameter
	// (both layouts are valid).
	OneParamPerCap bool
	// RawOpt, when non-nil, replaces the encoded optional parameters.
	RawOpt []byte
}

func CapMP(afi uint16, safi uint8) WCap {
	return WCap{Code: 1, Value: []byte{byte(afi >> 8), byte(afi), 0, safi}}
}
func CapASN4(asn uint32) WCap { return WCap{Code: 65, Value: u32(asn)} }
func CapRole(r uint8) WCap    { return WCap{Code: 9, Value: []byte{r}} }

// CapAddPath builds the ADD-PATH capability from (afi, safi, send/receive) tuples.
func CapAddPath(t ...[3]uint16) WCap {
	var v []byte
	for _, x := range t {
		v = append(v, byte(x[0]>>8), byte(x[0]), byte(x[1]), byte(x[2]))
	}
	return WCap{Code: 69, Value: v}
}

// CapExtNH builds the extended next hop capability from (afi, safi, nh afi) tuples.
func CapExtNH(t ...[3]uint16) WCap {
	var v []byte
	for _, x := range t {
		v = append(v, byte(x[0]>>8), byte(x[0]), byte(x[1]>>8), byte(x[1]), byte(x[2]>>8), byte(x[2]))
	}
	return WCap{Code: 5, Value: v}
}

// Build serializes the OPEN message.
func (o *WOpen) Build() []byte {
	var opt []byte
	if o.RawOpt != nil {
		opt = o.RawOpt
	} else if o.OneParamPerCap {
		for _, c := range o.Caps {
			opt = append(opt, 2, byte(2+len(c.Value)), c.Code, byte(len(c.Value)))
			opt = append(opt, c.Value...)
		}
	} else if len(o.Caps) > 0 {
		var cs []byte
		for _, c := range o.Caps {
			cs = append(cs, c.Code, byte(len(c.Value)))
			cs = append(cs, c.Value...)
		}
		opt = append([]byte{2, byte(len(cs))}, cs...)
	}
	b := []byte{o.Version, byte(o.AS >> 8), byte(o.AS), byte(o.HoldTime >> 8), byte(o.HoldTime)}
	b = append(b, u32(o.ID)...)
	b = append(b, byte(len(opt)))
	b = append(b, opt...)
	return Header(MsgOpen, b)
}

// ParseOpen parses an OPEN body.
func ParseOpen(body []byte) (*WOpen, *WErr) {
	if len(body) < 10 {
		return nil, werr("open-short", "OPEN body of %d bytes", len(body))
	}
	o := &WOpen{Version: body[0], AS: binary.BigEndian.Uint16(body[1:]), HoldTime: binary.BigEndian.Uint16(body[3:]), ID: binary.BigEndian.Uint32(body[5:])}
	ol := int(body[9])
	if 10+ol != len(body) {
		return o, werr("open-optlen", "optional parameter length %d, body has %d", ol, len(body)-10)
	}
	p := body[10:]
	for len(p) > 0 {
		if len(p) < 2 || 2+int(p[1]) > len(p) {
			return o, werr("open-param", "truncated optional parameter")
		}
		pt, pl := p[0], int(p[1])
		pv := p[2 : 2+pl]
		p = p[2+pl:]
		if pt != 2 {
			continue
		}
		for len(pv) > 0 {
			if len(pv) < 2 || 2+int(pv[1]) > len(pv) {
				return o, werr("open-cap", "truncated capability")
			}
			o.Caps = append(o.Caps, WCap{Code: pv[0], Value: append([]byte{}, pv[2:2+int(pv[1])]...)})
			pv = pv[2+int(pv[1]):]
		}
	}
	return o, nil
}

// FindCaps returns all capabilities with the given code.
func (o *WOpen) FindCaps(code uint8) []WCap {
	var out []WCap
	for _, c := range o.Caps {
		if c.Code == code {
			out = append(out, c)
		}
	}
	return out
}

// ParseNotification parses a NOTIFICATION body.
func ParseNotification(body []byte) (code, sub uint8, data []byte, err *WErr) {
	if len(body) < 2 {
		return 0, 0, nil, werr("notif-short", "NOTIFICATION body of %d bytes", len(body))
	}
	return body[0], body[1], body[2:], nil
}

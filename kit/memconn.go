package verifkit

import (
	"errors"
	"io"
	"net"
	"sync"
	"time"
)

// Conn is a race-free in-memory net.Conn endpoint for harnesses. The code
// under test reads what the harness Feed()s and its writes are captured.
// Deadlines are accepted and ignored.
type Conn struct {
	mu         sync.Mutex
	cond       *sync.Cond
	in         []byte
	out        []byte
	eof        bool
	closed     bool
	writeErr   error
	writeFault func([]byte) error
	blocked    int // readers currently parked in Read on an empty buffer
	consumed   int64
	local      net.Addr
	remote     net.Addr
	onWrite    func([]byte)
}

// NewConn creates an endpoint with the given addresses (may be nil).
func NewConn(local, remote net.Addr) *Conn {
	c := &Conn{local: local, remote: remote}
	if c.local == nil {
		c.local = &net.TCPAddr{IP: net.IPv4(127, 0, 0, 1), Port: 179}
	}
	if c.remote == nil {
		c.remote = &net.TCPAddr{IP: net.IPv4(127, 0, 0, 2), Port: 12345}
	}
	c.cond = sync.NewCond(&c.mu)
	return c
}

var errClosed = errors.New("verifkit: use of closed connection")

// Read blocks until bytes were fed, EOF was fed, or the conn was closed.
func (c *Conn) Read(b []byte) (int, error) {
	c.mu.Lock()
	defer c.mu.Unlock()
	for len(c.in) == 0 && !c.eof && !c.closed {
		c.blocked++
		c.cond.Broadcast()
		c.cond.Wait()
		c.blocked--
	}
	if c.closed {
		return 0, errClosed
	}
	if len(c.in) == 0 && c.eof {
		return 0, io.EOF
	}
	n := copy(b, c.in)
	c.in = c.in[n:]
	c.consumed += int64(n)
	c.cond.Broadcast()
	return n, nil
}

// Write captures the bytes (or fails with the configured error).
func (c *Conn) Write(b []byte) (int, error) {
	c.mu.Lock()
	defer c.mu.Unlock()
	if c.closed {
		return 0, errClosed
	}
	if c.writeErr != nil {
		return 0, c.writeErr
	}
	if c.writeFault != nil {
		if err := c.writeFault(b); err != nil {
			return 0, err
		}
	}
	c.out = append(c.out, b...)
	if c.onWrite != nil {
		c.onWrite(b)
	}
	c.cond.Broadcast()
	return len(b), nil
}

// Close closes the endpoint; pending and later Reads/Writes fail.
func (c *Conn) Close() error {
	c.mu.Lock()
	defer c.mu.Unlock()
	c.closed = true
	c.cond.Broadcast()
	return nil
}

func (c *Conn) LocalAddr() net.Addr                { return c.local }
func (c *Conn) RemoteAddr() net.Addr               { return c.remote }
func (c *Conn) SetDeadline(t time.Time) error      { return nil }
func (c *Conn) SetReadDeadline(t time.Time) error  { return nil }
func (c *Conn) SetWriteDeadline(t time.Time) error { return nil }

// Feed makes bytes available to the reader.
func (c *Conn) Feed(b []byte) {
	c.mu.Lock()
	c.in = append(c.in, b...)
	c.cond.Broadcast()
	c.mu.Unlock()
}

// FeedEOF makes Read return io.EOF once the fed bytes are consumed.
func (c *Conn) FeedEOF() {
	c.mu.Lock()
	c.eof = true
	c.cond.Broadcast()
	c.mu.Unlock()
}

// SetWriteError makes all later Writes fail with err (nil to clear).
// SetWriteFault installs a per-Write fault decision: fn sees the bytes of the
// Write and returns the error the Write fails with (nil = write succeeds).
func (c *Conn) SetWriteFault(fn func(b []byte) error) {
	c.mu.Lock()
	defer c.mu.Unlock()
	c.writeFault = fn
}

func (c *Conn) SetWriteError(err error) {
	c.mu.Lock()
	c.writeErr = err
	c.mu.Unlock()
}

// Closed reports whether Close was called.
func (c *Conn) Closed() bool {
	c.mu.Lock()
	defer c.mu.Unlock()
	return c.closed
}

// Written returns a copy of everything written so far.
func (c *Conn) Written() []byte {
	c.mu.Lock()
	defer c.mu.Unlock()
	return append([]byte{}, c.out...)
}

// TakeWritten returns and clears the captured output.
func (c *Conn) TakeWritten() []byte {
	c.mu.Lock()
	defer c.mu.Unlock()
	o := c.out
	c.out = nil
	return o
}

// Pending returns the number of fed bytes not yet read.
func (c *Conn) Pending() int {
	c.mu.Lock()
	defer c.mu.Unlock()
	return len(c.in)
}

// waitFor waits until pred (evaluated under the lock) holds or the timeout
// passes. Returns whether pred held.
func (c *Conn) waitFor(timeout time.Duration, pred func() bool) bool {
	deadline := time.Now().Add(timeout)
	stop := make(chan struct{})
	defer close(stop)
	go func() {
		t := time.NewTimer(timeout)
		defer t.Stop()
		select {
		case <-t.C:
			c.mu.Lock()
			c.cond.Broadcast()
			c.mu.Unlock()
		case <-stop:
		}
	}()
	c.mu.Lock()
	defer c.mu.Unlock()
	for !pred() {
		if !time.Now().Before(deadline) {
			return false
		}
		c.cond.Wait()
	}
	return true
}

// WaitDrained waits until every fed byte has been read AND a reader is parked
// in Read again (i.e. the reader finished handing over the previous message
// and came back for more), or the conn is closed. A timeout means "unknown"
// (inconclusive), never a property violation.
func (c *Conn) WaitDrained(timeout time.Duration) bool {
	return c.waitFor(timeout, func() bool { return c.closed || (len(c.in) == 0 && c.blocked > 0) })
}

// WaitClosed waits for Close.
func (c *Conn) WaitClosed(timeout time.Duration) bool {
	return c.waitFor(timeout, func() bool { return c.closed })
}

// WaitWritten waits until at least n bytes were written in total (since the
// last TakeWritten) or the conn is closed; returns whether n bytes are there.
func (c *Conn) WaitWritten(n int, timeout time.Duration) bool {
	c.waitFor(timeout, func() bool { return c.closed || len(c.out) >= n })
	c.mu.Lock()
	defer c.mu.Unlock()
	return len(c.out) >= n
}

// IsDrained reports (without waiting) whether every fed byte has been read and
// a reader is parked in Read again.
func (c *Conn) IsDrained() bool {
	c.mu.Lock()
	defer c.mu.Unlock()
	return len(c.in) == 0 && c.blocked > 0
}

package verifkit

// Structure-aware generator of hostile BGP byte strings (property C16 and
// everything else that needs "valid message + targeted damage").
//
// A MarkedMsg is a message built with the kit wire builder together with the
// offsets of every length-like field (1- and 2-byte lengths, segment counts,
// prefix lengths), attribute flag bytes and attribute type bytes, so that
// mutations hit the bytes decoders base their loops and allocations on.
// All randomness comes from rapid draws.

import (
	"encoding/binary"
	"fmt"

	"pgregory.net/rapid"
)

// MarkedMsg is a built message plus the offsets of its structural bytes.
type MarkedMsg struct {
	B      []byte
	Len8   []int // 1-byte length / count fields
	Len16  []int // 2-byte length fields
	Flags  []int // attribute flag bytes
	Types  []int // attribute type code / capability code / message type bytes
	PfxLen []int // NLRI prefix length bytes
	Kind   string
}

type markedAttr struct {
	a    WAttr
	len8 []int // relative to the value
	pfx  []int // relative to the value
}

var hostile8 = []byte{0, 1, 0x7f, 0x80, 0xfe, 0xff}
var hostile16 = []uint16{0, 1, 18, 19, 22, 23, 0x7f, 0x80, 0xff, 0x100, 0x0fff, 0x1000, 0x1001, 0x7fff, 0x8000, 0xfffe, 0xffff}

func genU32(t *rapid.T, label string) uint32 {
	switch rapid.IntRange(0, 5).Draw(t, label+"_m") {
	case 0:
		return 0
	case 1:
		return 0xffffffff
	case 2:
		return uint32(rapid.IntRange(1, 65535).Draw(t, label))
	case 3:
		return 23456
	default:
		return rapid.Uint32().Draw(t, label)
	}
}

func genBytes(t *rapid.T, min, max int, label string) []byte {
	return rapid.SliceOfN(rapid.Byte(), min, max).Draw(t, label)
}

// genNLRIList draws n NLRI of width w; marks are relative to the encoding.
func genNLRIList(t *rapid.T, w, n int, addPath bool, label string) (enc []byte, pfx []int) {
	for i := 0; i < n; i++ {
		p := GenPrefix(t, w, fmt.Sprintf("%s%d", label, i))
		nl := WNLRI{P: p, HasID: addPath}
		if addPath {
			nl.PathID = genU32(t, label+"_id")
			enc = binary.BigEndian.AppendUint32(enc, nl.PathID)
		}
		pfx = append(pfx, len(enc))
		enc = append(enc, byte(p.L))
		enc = append(enc, p.A[:(p.L+7)/8]...)
	}
	return enc, pfx
}

// genLabeledNLRIList draws labeled-unicast NLRI (SAFI 4): length byte covers
// 24 bits per label; the last label carries the bottom-of-stack bit.
func genLabeledNLRIList(t *rapid.T, w, n int, addPath bool, label string) (enc []byte, pfx []int) {
	for i := 0; i < n; i++ {
		p := GenPrefix(t, w, fmt.Sprintf("%s%d", label, i))
		labels := rapid.IntRange(1, 3).Draw(t, label+"_nl")
		if addPath {
			enc = binary.BigEndian.AppendUint32(enc, genU32(t, label+"_id"))
		}
		pfx = append(pfx, len(enc))
		enc = append(enc, byte(p.L+24*labels))
		for j := 0; j < labels; j++ {
			l := rapid.Uint32Range(0, 1<<20-1).Draw(t, label+"_lbl") << 4
			if j == labels-1 && rapid.IntRange(0, 9).Draw(t, label+"_bos") != 0 {
				l |= 1
			}
			enc = append(enc, byte(l>>16), byte(l>>8), byte(l))
		}
		enc = append(enc, p.A[:(p.L+7)/8]...)
	}
	return enc, pfx
}

func genSegs(t *rapid.T, label string) []WSeg {
	n := rapid.IntRange(0, 3).Draw(t, label+"_nseg")
	var segs []WSeg
	for i := 0; i < n; i++ {
		s := WSeg{Type: 2}
		switch rapid.IntRange(0, 9).Draw(t, label+"_st") {
		case 0, 1:
			s.Type = 1
		case 2:
			s.Type = uint8(rapid.SampledFrom([]int{0, 3, 4, 255}).Draw(t, label+"_badst"))
		}
		cnt := rapid.IntRange(0, 6).Draw(t, label+"_cnt")
		if rapid.IntRange(0, 30).Draw(t, label+"_long") == 0 {
			cnt = rapid.IntRange(250, 255).Draw(t, label+"_cntl")
		}
		for j := 0; j < cnt; j++ {
			s.ASNs = append(s.ASNs, genU32(t, label+"_asn"))
		}
		segs = append(segs, s)
	}
	return segs
}

func segMarks(segs []WSeg, asn4 bool) []int {
	sz := 2
	if asn4 {
		sz = 4
	}
	var m []int
	pos := 0
	for _, s := range segs {
		m = append(m, pos+1)
		pos += 2 + sz*len(s.ASNs)
	}
	return m
}

func genMP(t *rapid.T, reach bool, o WOpts, label string) markedAttr {
	afi := uint16(2)
	switch rapid.IntRange(0, 9).Draw(t, label+"_afi") {
	case 0, 1, 2:
		afi = 1
	case 3:
		afi = uint16(rapid.SampledFrom([]int{0, 3, 25, 16388, 65535}).Draw(t, label+"_afix"))
	}
	safi := uint8(1)
	switch rapid.IntRange(0, 9).Draw(t, label+"_safi") {
	case 0, 1:
		safi = 4
	case 2:
		safi = uint8(rapid.SampledFrom([]int{0, 2, 70, 128, 255}).Draw(t, label+"_safix"))
	}
	w := 128
	if afi == 1 {
		w = 32
	}
	ap := (afi == 1 && o.AddPath4) || (afi == 2 && o.AddPath6)
	n := rapid.IntRange(0, 4).Draw(t, label+"_n")
	var enc []byte
	var pfx []int
	if safi == 4 {
		enc, pfx = genLabeledNLRIList(t, w, n, ap, label+"_l")
	} else {
		enc, pfx = genNLRIList(t, w, n, ap, label+"_p")
	}
	v := binary.BigEndian.AppendUint16(nil, afi)
	v = append(v, safi)
	var ma markedAttr
	if reach {
		nhl := 16
		switch rapid.IntRange(0, 9).Draw(t, label+"_nhl") {
		case 0, 1:
			nhl = 4
		case 2:
			nhl = 32
		case 3:
			nhl = rapid.SampledFrom([]int{0, 1, 5, 12, 24, 31, 33, 255}).Draw(t, label+"_nhlx")
		}
		ma.len8 = append(ma.len8, 3)
		v = append(v, byte(nhl))
		v = append(v, genBytes(t, nhl, nhl, label+"_nh")...)
		// the attribute may end at a field boundary: right after the next hop
		// (no reserved octet) or after the reserved octet
		switch rapid.IntRange(0, 11).Draw(t, label+"_end") {
		case 7:
			enc, pfx = nil, nil
		case 8:
			enc, pfx = nil, nil
			v = append(v, 0)
		default:
			v = append(v, 0)
		}
	}
	base := len(v)
	v = append(v, enc...)
	for _, p := range pfx {
		ma.pfx = append(ma.pfx, base+p)
	}
	ma.a = WAttr{Flags: FlOptional, Type: AtMPUnreach, Value: v}
	if reach {
		ma.a.Type = AtMPReach
	}
	return ma
}

var unknownCodes = []int{0, 11, 12, 13, 16, 17, 18, 19, 22, 23, 26, 29, 33, 34, 35, 40, 128, 200, 254, 255}

func genAttr(t *rapid.T, which int, o WOpts, label string) markedAttr {
	switch which {
	case 0:
		return markedAttr{a: AttrOrigin(uint8(rapid.SampledFrom([]int{0, 1, 2, 3, 255}).Draw(t, label+"_origin")))}
	case 1:
		segs := genSegs(t, label+"_asp")
		return markedAttr{a: AttrASPath(segs, o.ASN4), len8: segMarks(segs, o.ASN4)}
	case 2:
		var ip [4]byte
		copy(ip[:], genBytes(t, 4, 4, label+"_nh"))
		return markedAttr{a: AttrNextHop(ip)}
	case 3:
		return markedAttr{a: AttrMED(genU32(t, label+"_med"))}
	case 4:
		return markedAttr{a: AttrLocalPref(genU32(t, label+"_lp"))}
	case 5:
		return markedAttr{a: AttrAtomicAggr()}
	case 6:
		var ip [4]byte
		copy(ip[:], genBytes(t, 4, 4, label+"_aggip"))
		return markedAttr{a: AttrAggregator(genU32(t, label+"_aggas"), ip, rapid.Bool().Draw(t, label+"_agg4"))}
	case 7:
		n := rapid.IntRange(0, 5).Draw(t, label+"_ncom")
		if rapid.IntRange(0, 20).Draw(t, label+"_comlong") == 0 {
			n = rapid.IntRange(63, 70).Draw(t, label+"_ncoml")
		}
		var cs []uint32
		for i := 0; i < n; i++ {
			cs = append(cs, genU32(t, label+"_com"))
		}
		return markedAttr{a: AttrCommunities(cs)}
	case 8:
		return markedAttr{a: AttrOriginatorID(genU32(t, label+"_oid"))}
	case 9:
		n := rapid.IntRange(0, 4).Draw(t, label+"_ncl")
		if rapid.IntRange(0, 20).Draw(t, label+"_cllong") == 0 {
			n = rapid.IntRange(63, 66).Draw(t, label+"_ncll")
		}
		var cs []uint32
		for i := 0; i < n; i++ {
			cs = append(cs, genU32(t, label+"_cl"))
		}
		return markedAttr{a: AttrClusterList(cs)}
	case 10:
		n := rapid.IntRange(0, 3).Draw(t, label+"_nlc")
		if rapid.IntRange(0, 20).Draw(t, label+"_lclong") == 0 {
			n = rapid.IntRange(21, 23).Draw(t, label+"_nlcl")
		}
		var cs [][3]uint32
		for i := 0; i < n; i++ {
			cs = append(cs, [3]uint32{genU32(t, label+"_lc0"), genU32(t, label+"_lc1"), genU32(t, label+"_lc2")})
		}
		return markedAttr{a: AttrLargeCommunities(cs)}
	case 11:
		return genMP(t, true, o, label+"_mpr")
	case 12:
		return genMP(t, false, o, label+"_mpu")
	case 13:
		segs := genSegs(t, label+"_as4p")
		a := AttrASPath(segs, true)
		a.Type = AtAS4Path
		a.Flags = FlOptional | FlTransitive
		return markedAttr{a: a, len8: segMarks(segs, true)}
	case 14:
		var ip [4]byte
		copy(ip[:], genBytes(t, 4, 4, label+"_a4ip"))
		a := AttrAggregator(genU32(t, label+"_a4as"), ip, true)
		a.Type = AtAS4Aggr
		return markedAttr{a: a}
	case 15:
		return markedAttr{a: AttrOTC(genU32(t, label+"_otc"))}
	default:
		n := rapid.IntRange(0, 20).Draw(t, label+"_unl")
		if rapid.IntRange(0, 15).Draw(t, label+"_unlong") == 0 {
			n = rapid.IntRange(250, 300).Draw(t, label+"_unll")
		}
		fl := uint8(FlOptional | FlTransitive)
		switch rapid.IntRange(0, 5).Draw(t, label+"_unfl") {
		case 0:
			fl = FlOptional
		case 1:
			fl = FlTransitive
		case 2:
			fl |= FlPartial
		}
		return markedAttr{a: WAttr{Flags: fl, Type: uint8(rapid.SampledFrom(unknownCodes).Draw(t, label+"_uncode")), Value: genBytes(t, n, n, label+"_unv")}}
	}
}

// GenMarkedUpdate draws a well-formed-by-construction UPDATE (semantic
// oddities such as unusual AFI/SAFI or next hop lengths included).
func GenMarkedUpdate(t *rapid.T, label string) *MarkedMsg {
	o := WOpts{AddPath4: rapid.Bool().Draw(t, label+"_ap4"), AddPath6: rapid.Bool().Draw(t, label+"_ap6"), ASN4: rapid.Bool().Draw(t, label+"_asn4")}
	m := &MarkedMsg{Kind: "update"}
	b := make([]byte, 19, 256)
	for i := 0; i < 16; i++ {
		b[i] = 0xff
	}
	b[18] = MsgUpdate
	m.Len16 = append(m.Len16, 16)
	m.Types = append(m.Types, 18)

	nw := 0
	if rapid.IntRange(0, 3).Draw(t, label+"_hasw") == 0 {
		nw = rapid.IntRange(1, 4).Draw(t, label+"_nw")
	}
	wenc, wp := genNLRIList(t, 32, nw, o.AddPath4, label+"_w")
	m.Len16 = append(m.Len16, len(b))
	b = binary.BigEndian.AppendUint16(b, uint16(len(wenc)))
	for _, p := range wp {
		m.PfxLen = append(m.PfxLen, len(b)+p)
	}
	b = append(b, wenc...)

	// attributes: a typical announcement, an MP announcement, or a random bag
	var kinds []int
	switch rapid.IntRange(0, 5).Draw(t, label+"_shape") {
	case 0:
		// withdraw only / end-of-rib
	case 1, 2:
		kinds = []int{0, 1, 2}
	case 3:
		kinds = []int{0, 1, 11}
	default:
		kinds = []int{}
	}
	extra := rapid.IntRange(0, 5).Draw(t, label+"_nextra")
	if len(kinds) == 0 && extra == 0 && rapid.Bool().Draw(t, label+"_force") {
		extra = 1
	}
	for i := 0; i < extra; i++ {
		kinds = append(kinds, rapid.IntRange(0, 16).Draw(t, label+"_kind"))
	}
	if len(kinds) > 1 && rapid.Bool().Draw(t, label+"_shuffle") {
		i := rapid.IntRange(0, len(kinds)-1).Draw(t, label+"_si")
		j := rapid.IntRange(0, len(kinds)-1).Draw(t, label+"_sj")
		kinds[i], kinds[j] = kinds[j], kinds[i]
	}
	alPos := len(b)
	m.Len16 = append(m.Len16, alPos)
	b = append(b, 0, 0)
	for i, k := range kinds {
		ma := genAttr(t, k, o, fmt.Sprintf("%s_a%d", label, i))
		if rapid.IntRange(0, 12).Draw(t, label+"_forceext") == 0 {
			ma.a.Flags |= FlExtLen
		}
		enc := ma.a.Encode()
		m.Flags = append(m.Flags, len(b))
		m.Types = append(m.Types, len(b)+1)
		hl := 3
		if enc[0]&FlExtLen != 0 {
			m.Len16 = append(m.Len16, len(b)+2)
			hl = 4
		} else {
			m.Len8 = append(m.Len8, len(b)+2)
		}
		for _, p := range ma.len8 {
			m.Len8 = append(m.Len8, len(b)+hl+p)
		}
		for _, p := range ma.pfx {
			m.PfxLen = append(m.PfxLen, len(b)+hl+p)
		}
		b = append(b, enc...)
	}
	binary.BigEndian.PutUint16(b[alPos:], uint16(len(b)-alPos-2))

	nn := 0
	if len(kinds) > 0 && rapid.IntRange(0, 2).Draw(t, label+"_hasn") != 0 {
		nn = rapid.IntRange(1, 4).Draw(t, label+"_nn")
	}
	nenc, np := genNLRIList(t, 32, nn, o.AddPath4, label+"_n")
	for _, p := range np {
		m.PfxLen = append(m.PfxLen, len(b)+p)
	}
	b = append(b, nenc...)
	binary.BigEndian.PutUint16(b[16:], uint16(len(b)))
	m.B = b
	return m
}

var capCodes = []int{0, 2, 3, 6, 64, 66, 70, 71, 73, 128, 255}

// GenMarkedOpen draws an OPEN with a generated capability set.
func GenMarkedOpen(t *rapid.T, label string) *MarkedMsg {
	o := &WOpen{Version: 4, AS: uint16(genU32(t, label+"_as")), HoldTime: uint16(rapid.SampledFrom([]int{0, 1, 2, 3, 90, 180, 65535}).Draw(t, label+"_hold")), ID: genU32(t, label+"_id")}
	if rapid.IntRange(0, 9).Draw(t, label+"_ver") == 0 {
		o.Version = uint8(rapid.SampledFrom([]int{0, 3, 5, 255}).Draw(t, label+"_verx"))
	}
	if o.ID == 0 && rapid.IntRange(0, 3).Draw(t, label+"_id0") != 0 {
		o.ID = 1
	}
	n := rapid.IntRange(0, 6).Draw(t, label+"_ncap")
	for i := 0; i < n; i++ {
		l := fmt.Sprintf("%s_c%d", label, i)
		switch rapid.IntRange(0, 6).Draw(t, l+"_k") {
		case 0:
			o.Caps = append(o.Caps, CapMP(uint16(rapid.SampledFrom([]int{1, 2, 25, 0}).Draw(t, l+"_afi")), uint8(rapid.SampledFrom([]int{1, 4, 128}).Draw(t, l+"_safi"))))
		case 1:
			o.Caps = append(o.Caps, CapASN4(genU32(t, l+"_asn4")))
		case 2:
			var tu [][3]uint16
			for j := rapid.IntRange(0, 3).Draw(t, l+"_nt"); j > 0; j-- {
				tu = append(tu, [3]uint16{uint16(rapid.IntRange(0, 3).Draw(t, l+"_tafi")), uint16(rapid.IntRange(0, 4).Draw(t, l+"_tsafi")), uint16(rapid.IntRange(0, 4).Draw(t, l+"_tsr"))})
			}
			o.Caps = append(o.Caps, CapAddPath(tu...))
		case 3:
			var tu [][3]uint16
			for j := rapid.IntRange(0, 2).Draw(t, l+"_nt"); j > 0; j-- {
				tu = append(tu, [3]uint16{uint16(rapid.IntRange(0, 3).Draw(t, l+"_tafi")), uint16(rapid.IntRange(0, 4).Draw(t, l+"_tsafi")), uint16(rapid.IntRange(0, 3).Draw(t, l+"_tnh"))})
			}
			o.Caps = append(o.Caps, CapExtNH(tu...))
		case 4:
			o.Caps = append(o.Caps, CapRole(uint8(rapid.IntRange(0, 6).Draw(t, l+"_role"))))
		default:
			o.Caps = append(o.Caps, WCap{Code: uint8(rapid.SampledFrom(capCodes).Draw(t, l+"_code")), Value: genBytes(t, 0, 10, l+"_v")})
		}
	}
	o.OneParamPerCap = rapid.Bool().Draw(t, label+"_one")
	m := &MarkedMsg{Kind: "open", B: o.Build()}
	m.Len16 = append(m.Len16, 16)
	m.Types = append(m.Types, 18)
	m.Len8 = append(m.Len8, 28)
	// walk the optional parameters as built
	p := 29
	for p+2 <= len(m.B) {
		m.Types = append(m.Types, p)
		m.Len8 = append(m.Len8, p+1)
		end := p + 2 + int(m.B[p+1])
		q := p + 2
		for q+2 <= end && q+2 <= len(m.B) {
			m.Types = append(m.Types, q)
			m.Len8 = append(m.Len8, q+1)
			q += 2 + int(m.B[q+1])
		}
		p = end
	}
	return m
}

// GenMarkedNotification draws a NOTIFICATION.
func GenMarkedNotification(t *rapid.T, label string) *MarkedMsg {
	code := uint8(rapid.IntRange(0, 7).Draw(t, label+"_code"))
	sub := uint8(rapid.IntRange(0, 12).Draw(t, label+"_sub"))
	if rapid.IntRange(0, 9).Draw(t, label+"_wild") == 0 {
		code, sub = rapid.Byte().Draw(t, label+"_codex"), rapid.Byte().Draw(t, label+"_subx")
	}
	var data []byte
	if rapid.IntRange(0, 2).Draw(t, label+"_hasdata") == 0 {
		data = genBytes(t, 1, 12, label+"_data")
	}
	return &MarkedMsg{Kind: "notification", B: Notification(code, sub, data), Len16: []int{16}, Types: []int{18}}
}

// GenMarked draws one valid message of any type.
func GenMarked(t *rapid.T, label string) *MarkedMsg {
	switch rapid.IntRange(0, 11).Draw(t, label+"_type") {
	case 11:
		return &MarkedMsg{Kind: "keepalive", B: Keepalive(), Len16: []int{16}, Types: []int{18}}
	case 10:
		return GenMarkedNotification(t, label)
	case 7, 8, 9:
		return GenMarkedOpen(t, label)
	default:
		return GenMarkedUpdate(t, label)
	}
}

func pick(t *rapid.T, xs []int, label string) (int, bool) {
	if len(xs) == 0 {
		return 0, false
	}
	return xs[rapid.IntRange(0, len(xs)-1).Draw(t, label)], true
}

// Mutate applies one structure-aware mutation; returns its name.
func (m *MarkedMsg) Mutate(t *rapid.T, label string) string {
	b := m.B
	switch rapid.IntRange(0, 11).Draw(t, label+"_op") {
	case 0, 1: // 1-byte length/count: hostile constant or +-k
		if p, ok := pick(t, m.Len8, label+"_p"); ok && p < len(b) {
			if rapid.Bool().Draw(t, label+"_const") {
				b[p] = rapid.SampledFrom(hostile8).Draw(t, label+"_h")
			} else {
				b[p] = byte(int(b[p]) + rapid.IntRange(-8, 8).Draw(t, label+"_k"))
			}
			return "len8"
		}
	case 2, 3: // 2-byte length
		if p, ok := pick(t, m.Len16, label+"_p"); ok && p+1 < len(b) {
			if rapid.Bool().Draw(t, label+"_const") {
				binary.BigEndian.PutUint16(b[p:], rapid.SampledFrom(hostile16).Draw(t, label+"_h"))
			} else {
				binary.BigEndian.PutUint16(b[p:], uint16(int(binary.BigEndian.Uint16(b[p:]))+rapid.IntRange(-8, 8).Draw(t, label+"_k")))
			}
			return "len16"
		}
	case 4: // prefix length 33..255 or other
		if p, ok := pick(t, m.PfxLen, label+"_p"); ok && p < len(b) {
			b[p] = byte(rapid.IntRange(25, 255).Draw(t, label+"_pl"))
			return "pfxlen"
		}
	case 5: // attribute flag flip
		if p, ok := pick(t, m.Flags, label+"_p"); ok && p < len(b) {
			b[p] ^= byte(rapid.SampledFrom([]int{0x10, 0x20, 0x40, 0x80, 0x0f, 0xff}).Draw(t, label+"_bit"))
			return "flags"
		}
	case 6: // type / code swap: same payload, other decoder
		if p, ok := pick(t, m.Types, label+"_p"); ok && p < len(b) {
			if p == 18 {
				b[p] = byte(rapid.IntRange(0, 5).Draw(t, label+"_mt"))
			} else {
				b[p] = byte(rapid.SampledFrom([]int{1, 2, 3, 4, 5, 6, 7, 8, 9, 10, 14, 15, 17, 18, 32, 35, 65, 69, 99}).Draw(t, label+"_ty"))
			}
			return "type"
		}
	case 7: // truncate
		if len(b) > 0 {
			m.B = b[:rapid.IntRange(0, len(b)-1).Draw(t, label+"_cut")]
			return "truncate"
		}
	case 8: // splice with another valid message
		o := GenMarked(t, label+"_sp")
		i := rapid.IntRange(0, len(b)).Draw(t, label+"_i")
		j := rapid.IntRange(0, len(o.B)).Draw(t, label+"_j")
		m.B = append(append([]byte{}, b[:i]...), o.B[j:]...)
		if len(m.B) > 8192 {
			m.B = m.B[:8192]
		}
		return "splice"
	case 9: // overwrite a random byte
		if len(b) > 0 {
			p := rapid.IntRange(0, len(b)-1).Draw(t, label+"_p")
			if rapid.Bool().Draw(t, label+"_const") {
				b[p] = rapid.SampledFrom(hostile8).Draw(t, label+"_h")
			} else {
				b[p] = rapid.Byte().Draw(t, label+"_v")
			}
			return "byte"
		}
	case 10: // insert random bytes
		p := rapid.IntRange(0, len(b)).Draw(t, label+"_p")
		ins := genBytes(t, 1, 8, label+"_ins")
		m.B = append(append(append([]byte{}, b[:p]...), ins...), b[p:]...)
		return "insert"
	case 11: // delete a chunk
		if len(b) > 1 {
			p := rapid.IntRange(0, len(b)-1).Draw(t, label+"_p")
			n := rapid.IntRange(1, 8).Draw(t, label+"_n")
			if p+n > len(b) {
				n = len(b) - p
			}
			m.B = append(append([]byte{}, b[:p]...), b[p+n:]...)
			return "delete"
		}
	}
	// the chosen operation had no target in this message: damage one byte
	if len(m.B) > 0 {
		p := rapid.IntRange(0, len(m.B)-1).Draw(t, label+"_fp")
		m.B[p] = rapid.SampledFrom(hostile8).Draw(t, label+"_fh")
		return "byte"
	}
	return "none"
}

// FixHeaderLen rewrites the header length field to the real length (what a
// receiver that frames by the header would hand to the body decoder).
func (m *MarkedMsg) FixHeaderLen() {
	if len(m.B) >= 19 {
		binary.BigEndian.PutUint16(m.B[16:], uint16(len(m.B)))
	}
}

// GenHostileBGP draws one input for a BGP message decoder: valid messages,
// structurally mutated messages, random bodies behind a valid header, corpus
// entries (optionally mutated), random bytes, and concatenations. The
// returned classes describe how the input was made.
func GenHostileBGP(t *rapid.T, corpus [][]byte) (in []byte, classes []string) {
	mode := rapid.IntRange(0, 11).Draw(t, "mode")
	if mode == 9 && len(corpus) == 0 {
		mode = 0
	}
	switch mode {
	case 8: // random body behind a valid header
		body := genBytes(t, 0, 96, "body")
		typ := uint8(rapid.IntRange(1, 4).Draw(t, "type"))
		in = Header(typ, body)
		if rapid.IntRange(0, 4).Draw(t, "badlen") == 0 {
			binary.BigEndian.PutUint16(in[16:], rapid.SampledFrom(hostile16).Draw(t, "hl"))
		}
		return in, []string{"gen:random_body", fmt.Sprintf("type:%d", typ)}
	case 9: // repo corpus
		e := corpus[rapid.IntRange(0, len(corpus)-1).Draw(t, "corpus")]
		m := &MarkedMsg{B: append([]byte{}, e...), Kind: "corpus", Len16: []int{16}, Types: []int{18}}
		classes = []string{"gen:corpus"}
		for k := rapid.IntRange(0, 2).Draw(t, "nmut"); k > 0; k-- {
			classes = append(classes, "mut:"+m.Mutate(t, fmt.Sprintf("m%d", k)))
		}
		return m.B, classes
	case 10: // random bytes, no structure
		return genBytes(t, 0, 64, "raw"), []string{"gen:random_bytes"}
	case 11: // valid message followed by more bytes (second message or garbage)
		m := GenMarked(t, "first")
		in = append([]byte{}, m.B...)
		if rapid.Bool().Draw(t, "second") {
			in = append(in, GenMarked(t, "second").B...)
		} else {
			in = append(in, genBytes(t, 1, 32, "garbage")...)
		}
		return in, []string{"gen:trailing", "kind:" + m.Kind}
	}
	m := GenMarked(t, "msg")
	classes = []string{"kind:" + m.Kind}
	nmut := rapid.IntRange(0, 3).Draw(t, "nmut")
	if nmut == 0 {
		return m.B, append(classes, "gen:valid")
	}
	classes = append(classes, "gen:mutated")
	for k := 0; k < nmut; k++ {
		classes = append(classes, "mut:"+m.Mutate(t, fmt.Sprintf("m%d", k)))
	}
	if len(m.B) >= 19 && len(m.B) <= 4096 && rapid.IntRange(0, 9).Draw(t, "fixlen") < 6 {
		m.FixHeaderLen()
		classes = append(classes, "hdrlen_fixed")
	}
	return m.B, classes
}

// BGPSeedMessages returns a deterministic set of valid messages (seeds for
// native fuzzing): KEEPALIVE, NOTIFICATIONs, OPENs with every capability
// bio-rd knows, UPDATEs with every attribute, IPv4/IPv6, add-path on/off.
func BGPSeedMessages() [][]byte {
	var out [][]byte
	out = append(out, Keepalive(), Notification(6, 2, nil), Notification(2, 11, nil), Notification(3, 1, []byte{1, 2, 3}))
	for _, one := range []bool{false, true} {
		o := &WOpen{Version: 4, AS: 23456, HoldTime: 90, ID: 0x0a000001, OneParamPerCap: one, Caps: []WCap{
			CapMP(1, 1), CapMP(2, 1), CapASN4(4200000000), CapAddPath([3]uint16{1, 1, 3}, [3]uint16{2, 1, 1}),
			CapExtNH([3]uint16{1, 1, 2}), CapRole(3), {Code: 2}, {Code: 64, Value: []byte{0x40, 0x78}}}}
		out = append(out, o.Build())
	}
	out = append(out, (&WOpen{Version: 4, AS: 65000, HoldTime: 0, ID: 1}).Build())
	for _, o := range []WOpts{{}, {ASN4: true}, {ASN4: true, AddPath4: true, AddPath6: true}, {AddPath4: true}} {
		id := func(n WNLRI) WNLRI { n.HasID = o.AddPath4; return n }
		id6 := func(n WNLRI) WNLRI { n.HasID = o.AddPath6; return n }
		u := &WUpdate{
			Withdrawn: []WNLRI{id(WNLRI{P: V4(0x0a000000, 8), PathID: 7})},
			NLRI:      []WNLRI{id(WNLRI{P: V4(0xc0a80100, 24), PathID: 1}), id(WNLRI{P: V4(0, 0), PathID: 2}), id(WNLRI{P: V4(0xc0000201, 32), PathID: 3})},
			Attrs: []WAttr{AttrOrigin(0), AttrASPath([]WSeg{{2, []uint32{65000, 64512}}, {1, []uint32{1, 2}}}, o.ASN4), AttrNextHop([4]byte{1, 2, 3, 4}),
				AttrMED(5), AttrLocalPref(100), AttrAtomicAggr(), AttrAggregator(65000, [4]byte{9, 9, 9, 9}, o.ASN4), AttrCommunities([]uint32{0xffffff01, 2}),
				AttrOriginatorID(9), AttrClusterList([]uint32{3, 4}), AttrLargeCommunities([][3]uint32{{1, 2, 3}}), AttrOTC(77),
				{Flags: FlOptional | FlTransitive, Type: 99, Value: []byte{1, 2, 3}}},
		}
		out = append(out, u.Build(o, nil))
		nh := make([]byte, 16)
		nh[0], nh[1], nh[15] = 0x20, 0x01, 1
		u6 := &WUpdate{Attrs: []WAttr{
			AttrMPReach(WMP{AFI: 2, SAFI: 1, NextHop: nh, NLRI: []WNLRI{id6(WNLRI{P: V6(0x20010db800000000, 0, 33), PathID: 5}), id6(WNLRI{P: V6(0x20010db800000000, 1, 128), PathID: 6})}}, o.AddPath6),
			AttrOrigin(2), AttrASPath([]WSeg{{2, []uint32{65001}}}, o.ASN4), AttrLocalPref(200)}}
		out = append(out, u6.Build(o, nil))
		nh32 := append(append([]byte{}, nh...), 0xfe, 0x80, 0, 0, 0, 0, 0, 0, 0, 0, 0, 0, 0, 0, 0, 1)
		u6b := &WUpdate{Attrs: []WAttr{
			AttrMPUnreach(WMP{AFI: 2, SAFI: 1, NLRI: []WNLRI{id6(WNLRI{P: V6(0x20010db800000000, 0, 48), PathID: 6})}}, o.AddPath6),
			AttrMPReach(WMP{AFI: 2, SAFI: 1, NextHop: nh32, NLRI: []WNLRI{id6(WNLRI{P: V6(0x20010db8ffff0000, 0, 64), PathID: 5})}}, o.AddPath6),
			AttrOrigin(0), AttrASPath(nil, o.ASN4),
			{Flags: FlOptional | FlTransitive | FlExtLen, Type: 17, Value: []byte{2, 1, 0, 0, 0xfd, 0xe8}}}}
		out = append(out, u6b.Build(o, nil))
		// labeled unicast (SAFI 4) over MP_REACH: one label, 10.0.0.0/8
		lab := []byte{0, 1, 4, 4, 192, 0, 2, 1, 0, 32, 0x00, 0x01, 0x01, 10}
		out = append(out, (&WUpdate{Attrs: []WAttr{{Flags: FlOptional, Type: AtMPReach, Value: lab}, AttrOrigin(0), AttrASPath(nil, o.ASN4)}}).Build(o, nil))
	}
	out = append(out, (&WUpdate{}).Build(WOpts{}, nil)) // End-of-RIB
	return out
}

package verifkit

// Concurrency helpers for the schedule properties (C25 deadlock freedom, C26
// data-race freedom): operation goroutines with a recognisable marker frame,
// a watchdog that confirms a deadlock by two matching goroutine dumps, and a
// parser for Go race detector log files. No bio-rd imports; bio-rd code is
// recognised by its module path in function names.

import (
	"fmt"
	"os"
	"path/filepath"
	"regexp"
	"runtime"
	"sort"
	"strconv"
	"strings"
	"time"
)

// BioPrefix is the module path prefix of functions of the code under test.
const BioPrefix = "github.com/bio-routing/bio-rd/"

// ---------------------------------------------------------------------------
// operation goroutines

// opTrampoline is the marker frame of every operation goroutine.
//
//go:noinline
func opTrampoline(f func(), done chan struct{}) {
	defer close(done)
	f()
}

// GoOp runs f in a new goroutine that carries the marker frame
// verifkit.opTrampoline; the returned channel is closed when f returns.
func GoOp(f func()) <-chan struct{} {
	done := make(chan struct{})
	go opTrampoline(f, done)
	return done
}

// StuckReport is the diagnosis of operations that did not complete in time.
type StuckReport struct {
	// Confirmed: every unfinished operation goroutine was parked in the same
	// lock/channel frame in two dumps taken `gap` apart and at least one of
	// them is parked inside bio-rd code.
	Confirmed bool
	// Frames: innermost bio-rd frame (module prefix stripped) of every
	// operation goroutine parked inside bio-rd code; sorted, unique.
	Frames []string
	// Reason explains an unconfirmed (inconclusive) report.
	Reason string
	// Dump is the second goroutine dump.
	Dump string
	// Relevant: stacks of the unfinished operation goroutines and of every
	// goroutine that runs bio-rd code and is not parked in a channel
	// receive/select (those are idle workers).
	Relevant string
}

// Sig renders the blocked frames as one signature string.
func (s *StuckReport) Sig(prop string) string {
	return prop + "/deadlock:" + strings.Join(s.Frames, "|")
}

// CandidateSigs lists the signatures a known-findings entry may use for this
// report: every single blocked frame and every unordered pair of them (a
// listed deadlock is recognised by its core frames; further goroutines queued
// behind the same locks are collateral).
func (s *StuckReport) CandidateSigs(prop string) []string {
	var out []string
	for i, a := range s.Frames {
		out = append(out, prop+"/deadlock:"+a)
		for _, b := range s.Frames[i+1:] {
			out = append(out, prop+"/deadlock:"+a+"|"+b)
		}
	}
	return out
}

// WaitOps waits until all channels are closed. When `limit` expires it takes
// goroutine dumps `gap` apart (up to three pairs) and reports. nil = all
// operations completed within the limit.
func WaitOps(dones []<-chan struct{}, limit, gap time.Duration) *StuckReport {
	deadline := time.NewTimer(limit)
	defer deadline.Stop()
	for _, d := range dones {
		select {
		case <-d:
		case <-deadline.C:
			return diagnose(dones, gap)
		}
	}
	return nil
}

func allDone(dones []<-chan struct{}) bool {
	for _, d := range dones {
		select {
		case <-d:
		default:
			return false
		}
	}
	return true
}

// Stacks returns a dump of all goroutines.
func Stacks() string { return allStacks() }

func allStacks() string {
	n := 1 << 20
	for {
		buf := make([]byte, n)
		m := runtime.Stack(buf, true)
		if m < n {
			return string(buf[:m])
		}
		n *= 2
		if n > 1<<28 {
			return string(buf[:m])
		}
	}
}

// Goroutine is one parsed entry of a goroutine dump.
type Goroutine struct {
	ID     int
	State  string
	Funcs  []string // innermost first
	Files  []string // file:line per frame
	IsOp   bool     // carries the opTrampoline marker
	Header string
	Raw    string
}

var goHdr = regexp.MustCompile(`^goroutine (\d+) \[([^\]]*)\]:`)

// ParseDump parses the output of runtime.Stack(all=true).
func ParseDump(d string) []*Goroutine {
	var out []*Goroutine
	for _, blk := range strings.Split(d, "\n\n") {
		lines := strings.Split(strings.TrimSpace(blk), "\n")
		if len(lines) == 0 {
			continue
		}
		m := goHdr.FindStringSubmatch(lines[0])
		if m == nil {
			continue
		}
		g := &Goroutine{Header: lines[0], Raw: strings.TrimSpace(blk)}
		g.ID, _ = strconv.Atoi(m[1])
		g.State = m[2]
		if i := strings.Index(g.State, ","); i >= 0 {
			g.State = g.State[:i]
		}
		for i := 1; i+1 < len(lines); i += 2 {
			fn := lines[i]
			if strings.HasPrefix(fn, "created by ") {
				break
			}
			if j := strings.LastIndex(fn, "("); j >= 0 {
				fn = fn[:j]
			}
			file := strings.TrimSpace(lines[i+1])
			if j := strings.Index(file, " +0x"); j >= 0 {
				file = file[:j]
			}
			g.Funcs = append(g.Funcs, fn)
			g.Files = append(g.Files, file)
			if fn == "verifkit.opTrampoline" {
				g.IsOp = true
			}
		}
		out = append(out, g)
	}
	return out
}

func blockedState(s string) bool {
	for _, p := range []string{"sync.Mutex.Lock", "sync.RWMutex.RLock", "sync.RWMutex.Lock", "semacquire", "chan send", "chan receive", "select", "sync.WaitGroup.Wait", "sync.Cond.Wait"} {
		if strings.HasPrefix(s, p) {
			return true
		}
	}
	return false
}

func mutexState(s string) bool {
	for _, p := range []string{"sync.Mutex.Lock", "sync.RWMutex.RLock", "sync.RWMutex.Lock", "semacquire"} {
		if strings.HasPrefix(s, p) {
			return true
		}
	}
	return false
}

func isRuntimeFunc(fn string) bool {
	return strings.HasPrefix(fn, "runtime.") || strings.HasPrefix(fn, "sync.") || strings.HasPrefix(fn, "sync/") || strings.HasPrefix(fn, "internal/")
}

// IsHarnessFrame reports whether the frame belongs to harness code.
func IsHarnessFrame(fn, file string) bool {
	return strings.HasPrefix(fn, "verifkit.") || strings.Contains(file, "zz_verif_") || strings.Contains(file, "/verif/inpkg/") || strings.Contains(file, "/verif/kit/") ||
		strings.HasPrefix(fn, "testing.") || strings.HasPrefix(fn, "pgregory.net/")
}

// IsBioFrame reports whether the frame is bio-rd (non-harness) code.
func IsBioFrame(fn, file string) bool {
	return strings.HasPrefix(fn, BioPrefix) && !IsHarnessFrame(fn, file)
}

// parkedIn returns the innermost non-runtime frame of g ("" if none), whether
// it is bio-rd code, and a key describing the whole stack.
func (g *Goroutine) parkedIn() (frame string, bio bool) {
	for i, fn := range g.Funcs {
		if isRuntimeFunc(fn) {
			continue
		}
		return strings.TrimPrefix(fn, BioPrefix), IsBioFrame(fn, g.Files[i])
	}
	return "", false
}

func (g *Goroutine) key() string {
	var sb strings.Builder
	sb.WriteString(g.State)
	for i := range g.Funcs {
		sb.WriteString("\n")
		sb.WriteString(g.Funcs[i])
		sb.WriteString(" ")
		sb.WriteString(g.Files[i])
	}
	return sb.String()
}

func diagnose(dones []<-chan struct{}, gap time.Duration) *StuckReport {
	d1 := allStacks()
	reason, relevant := "", ""
	for attempt := 0; attempt < 3; attempt++ {
		time.Sleep(gap)
		if allDone(dones) {
			return &StuckReport{Reason: "slow: all operations completed during diagnosis", Dump: d1}
		}
		d2 := allStacks()
		rep := CompareDumps(d1, d2)
		if rep.Confirmed {
			return rep
		}
		reason = rep.Reason
		relevant = rep.Relevant
		d1 = d2
	}
	return &StuckReport{Reason: "unconfirmed after 3 dump pairs: " + reason, Dump: d1, Relevant: relevant}
}

// StuckSendRoots: goroutines of the code under test whose stack contains one of these functions are judged
// when they are parked in a channel send.
var StuckSendRoots = []string{"server.(*FSM).run", "server.(*bgpServer).incomingConnectionWorker"}

func (g *Goroutine) hasFunc(subs []string) bool {
	for _, fn := range g.Funcs {
		for _, s := range subs {
			if strings.Contains(fn, s) {
				return true
			}
		}
	}
	return false
}

// CompareDumps applies the deadlock rule to two dumps of the same process.
func CompareDumps(d1, d2 string) *StuckReport {
	g1 := map[int]*Goroutine{}
	for _, g := range ParseDump(d1) {
		g1[g.ID] = g
	}
	rep := &StuckReport{Dump: d2}
	frames := map[string]struct{}{}
	nOps := 0
	gs2 := ParseDump(d2)
	var rel strings.Builder
	for _, g := range gs2 {
		if g.IsOp {
			rel.WriteString(g.Raw + "\n\n")
		}
	}
	for _, g := range gs2 {
		if g.IsOp || strings.HasPrefix(g.State, "chan receive") || strings.HasPrefix(g.State, "select") {
			continue
		}
		for i, fn := range g.Funcs {
			if IsBioFrame(fn, g.Files[i]) {
				rel.WriteString(g.Raw + "\n\n")
				break
			}
		}
	}
	rep.Relevant = rel.String()
	for _, g := range gs2 {
		if !g.IsOp {
			// a goroutine of the code under test (not started by the harness) parked in a mutex in both
			// dumps is part of the picture; idle channel waits are not
			if p := g1[g.ID]; p != nil && mutexState(g.State) && p.key() == g.key() {
				if f, bio := g.parkedIn(); bio {
					frames[f] = struct{}{}
				}
			}
			// ... and so is a session's own goroutine (FSM.run) that sits in an unbuffered channel send in both
			// dumps: its state loops wait in select, a bare send is a hand-over to a goroutine that has to be there
			// (e.g. UpdateSender.Destroy -> the sender goroutine, which polls every few milliseconds)
			if p := g1[g.ID]; p != nil && strings.HasPrefix(g.State, "chan send") && p.key() == g.key() && g.hasFunc(StuckSendRoots) {
				if f, bio := g.parkedIn(); bio {
					frames[f] = struct{}{}
				}
			}
			continue
		}
		nOps++
		p := g1[g.ID]
		if p == nil || !blockedState(g.State) || p.key() != g.key() {
			rep.Reason = fmt.Sprintf("operation goroutine %d is not parked identically in both dumps (%s)", g.ID, g.State)
			return rep
		}
		if f, bio := g.parkedIn(); bio {
			frames[f] = struct{}{}
		}
	}
	if nOps == 0 {
		rep.Reason = "no unfinished operation goroutine in the dump"
		return rep
	}
	if len(frames) == 0 {
		rep.Reason = "all unfinished operation goroutines are parked in harness code"
		return rep
	}
	for f := range frames {
		rep.Frames = append(rep.Frames, f)
	}
	sort.Strings(rep.Frames)
	rep.Confirmed = true
	return rep
}

// ExitInconclusive prints a recognisable line and ends the test process with
// status 2 (no `--- FAIL`, no panic: the driver maps this to "inconclusive").
func ExitInconclusive(format string, args ...interface{}) {
	fmt.Printf("VERIF-INCONCLUSIVE: "+format+"\n", args...)
	os.Exit(2)
}

// ---------------------------------------------------------------------------
// race detector logs

// RaceReport is one "WARNING: DATA RACE" block.
type RaceReport struct {
	// Frames: for each of the two accesses the innermost bio-rd frame (module
	// prefix stripped); "harness" when the stack has no bio-rd frame, "?"
	// when the race detector could not restore the stack.
	Frames [2]string
	Text   string
}

// Sig is the unordered frame pair.
func (r *RaceReport) Sig(prop string) string {
	a, b := r.Frames[0], r.Frames[1]
	if b < a {
		a, b = b, a
	}
	return prop + "/race:" + a + "|" + b
}

// HarnessOnly: neither access is inside bio-rd code.
func (r *RaceReport) HarnessOnly() bool {
	return r.Frames[0] == "harness" && r.Frames[1] == "harness"
}

// Unrestorable: at least one stack is missing.
func (r *RaceReport) Unrestorable() bool { return r.Frames[0] == "?" || r.Frames[1] == "?" }

var raceAccessHdr = regexp.MustCompile(`^(Previous )?([Aa]tomic )?([Rr]ead|[Ww]rite) at 0x[0-9a-f]+ by `)

// ParseRaceText parses the text of one or more race reports.
func ParseRaceText(text string) []*RaceReport {
	var out []*RaceReport
	for _, blk := range strings.Split(text, "==================") {
		if !strings.Contains(blk, "WARNING: DATA RACE") {
			continue
		}
		r := &RaceReport{Text: strings.TrimSpace(blk)}
		lines := strings.Split(blk, "\n")
		acc := 0
		for i := 0; i < len(lines) && acc < 2; i++ {
			if !raceAccessHdr.MatchString(lines[i]) {
				continue
			}
			frame := "harness"
			j := i + 1
			if j < len(lines) && strings.Contains(lines[j], "failed to restore the stack") {
				frame = "?"
			}
			for ; j+1 < len(lines) && strings.TrimSpace(lines[j]) != ""; j += 2 {
				fn := strings.TrimSpace(lines[j])
				if k := strings.LastIndex(fn, "("); k >= 0 {
					fn = fn[:k]
				}
				file := strings.TrimSpace(lines[j+1])
				if IsBioFrame(fn, file) {
					frame = strings.TrimPrefix(fn, BioPrefix)
					break
				}
			}
			r.Frames[acc] = frame
			acc++
			i = j
		}
		if acc < 2 {
			for ; acc < 2; acc++ {
				r.Frames[acc] = "?"
			}
		}
		out = append(out, r)
	}
	return out
}

// ParseRaceLogs reads every file matching pattern (GORACE log_path prefix +
// ".*") and parses the reports.
func ParseRaceLogs(pattern string) ([]*RaceReport, error) {
	files, err := filepath.Glob(pattern)
	if err != nil {
		return nil, err
	}
	sort.Strings(files)
	var out []*RaceReport
	for _, f := range files {
		b, err := os.ReadFile(f)
		if err != nil {
			return nil, err
		}
		out = append(out, ParseRaceText(string(b))...)
	}
	return out, nil
}

// SplitMix is a tiny deterministic PRNG for schedule workloads, seeded from
// kit.Seed() by the caller (never from the clock).
type SplitMix struct{ s uint64 }

// NewSplitMix returns a generator with the given seed.
func NewSplitMix(seed uint64) *SplitMix { return &SplitMix{s: seed} }

// Next returns the next 64 random bits.
func (r *SplitMix) Next() uint64 {
	r.s += 0x9e3779b97f4a7c15
	z := r.s
	z = (z ^ (z >> 30)) * 0xbf58476d1ce4e5b9
	z = (z ^ (z >> 27)) * 0x94d049bb133111eb
	return z ^ (z >> 31)
}

// Intn returns a value in [0,n).
func (r *SplitMix) Intn(n int) int {
	if n <= 1 {
		return 0
	}
	return int(r.Next() % uint64(n))
}

// Chance returns true with probability num/den.
func (r *SplitMix) Chance(num, den int) bool { return r.Intn(den) < num }

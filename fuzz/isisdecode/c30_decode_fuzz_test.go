package veriffuzz

// Native fuzz target for C30 (thorough tier): the exported IS-IS decoder.
// Oracle: packet.Decode / packet.DecodeL2Hello never panic on any byte string,
// return exactly one of (PDU, error), the body type follows the PDU type, and
// whatever was decoded can be serialized again without a panic. When
// serialize(decode(x)) == x, decoding those bytes again must succeed and
// serialize to the same bytes.

import (
	"bytes"
	"testing"

	"github.com/bio-routing/bio-rd/protocols/isis/packet"
	kit "verifkit"
)

func c30Serialize(pkt *packet.ISISPacket) []byte {
	buf := bytes.NewBuffer(nil)
	pkt.Header.Serialize(buf)
	if pkt.Body != nil {
		if s, ok := pkt.Body.(packet.Serializable); ok {
			s.Serialize(buf)
		}
	}
	return buf.Bytes()
}

func FuzzC30Decode(f *testing.F) {
	for _, s := range kit.ISISSamplePDUs() {
		f.Add(s)
		if len(s) > 20 {
			f.Add(s[:len(s)-3])
			f.Add(s[:20])
		}
	}
	f.Add([]byte{})
	f.Add([]byte{0xfe, 0xfe, 0x03, 0x83, 27, 1, 0, 0x14, 1, 0, 0})
	f.Fuzz(func(t *testing.T, data []byte) {
		if len(data) > 4096 {
			return
		}
		pkt, err := packet.Decode(bytes.NewBuffer(append([]byte(nil), data...)))
		if (pkt == nil) == (err == nil) {
			t.Fatalf("Decode returned pkt=%v err=%v", pkt, err)
		}
		if len(data) >= 11 {
			h, herr := packet.DecodeL2Hello(bytes.NewBuffer(append([]byte(nil), data[11:]...)))
			if (h == nil) == (herr == nil) {
				t.Fatalf("DecodeL2Hello returned h=%v err=%v", h, herr)
			}
		}
		if err != nil {
			return
		}
		if pkt.Header == nil {
			t.Fatalf("decoded packet without header")
		}
		switch pkt.Header.PDUType {
		case packet.P2P_HELLO:
			if _, ok := pkt.Body.(*packet.P2PHello); !ok {
				t.Fatalf("P2P hello decoded to %T", pkt.Body)
			}
		case packet.L2_LS_PDU_TYPE:
			if _, ok := pkt.Body.(*packet.LSPDU); !ok {
				t.Fatalf("LSP decoded to %T", pkt.Body)
			}
		case packet.L2_CSNP_TYPE:
			if _, ok := pkt.Body.(*packet.CSNP); !ok {
				t.Fatalf("CSNP decoded to %T", pkt.Body)
			}
		case packet.L2_PSNP_TYPE:
			if _, ok := pkt.Body.(*packet.PSNP); !ok {
				t.Fatalf("PSNP decoded to %T", pkt.Body)
			}
		default:
			if pkt.Body != nil {
				t.Fatalf("PDU type %#x decoded to %T", pkt.Header.PDUType, pkt.Body)
			}
		}
		out := c30Serialize(pkt) // must not panic
		// when the decoder's view was faithful (serialize(decode(x)) == x), decoding bio-rd's own
		// output again must reproduce it
		if len(data) >= 3 && bytes.Equal(out, data[3:]) {
			again, err := packet.Decode(bytes.NewBuffer(append(append([]byte(nil), data[:3]...), out...)))
			if err != nil {
				t.Fatalf("second decode of identical bytes failed: %v", err)
			}
			if !bytes.Equal(c30Serialize(again), out) {
				t.Fatalf("serialize(decode(x)) not stable")
			}
		}
	})
}

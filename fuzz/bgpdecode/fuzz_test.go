package bgpdecode

// Native go-fuzz target for property C16 (thorough tier): packet.Decode is
// total and bounded for every byte string under every combination of decode
// options. Same oracle as inpkg/protocols/bgp/packet/c16_decode_test.go; the
// option combination is taken from the low four bits of a fuzzed byte.
//
// Run by /verif/check (exec_fuzz); by hand:
//   go test -run '^$' -fuzz '^FuzzC16Decode$' -fuzztime 60s .

import (
	"bytes"
	"encoding/hex"
	"fmt"
	"hash/fnv"
	"os"
	"path/filepath"
	"runtime"
	"runtime/debug"
	"sort"
	"testing"

	"github.com/bio-routing/bio-rd/protocols/bgp/packet"
	kit "verifkit"
)

const (
	allocBase    = 256 << 10
	allocPerByte = 512
)

var m0, m1 runtime.MemStats

func options(i byte) packet.DecodeOptions {
	return packet.DecodeOptions{
		AddPathIPv4Unicast: i&1 != 0,
		AddPathIPv6Unicast: i&2 != 0,
		Use32BitASN:        i&4 != 0,
		ExtendedNextHop:    i&8 != 0,
	}
}

func decodeOnce(in []byte, opt packet.DecodeOptions) (msg *packet.BGPMessage, err error, panicked interface{}, stack string) {
	defer func() {
		if p := recover(); p != nil {
			panicked = p
			stack = string(debug.Stack())
		}
	}()
	msg, err = packet.Decode(bytes.NewBuffer(in), &opt)
	return
}

func walk(m *packet.BGPMessage, n int) string {
	if m.Header == nil {
		return "message without header"
	}
	limit := n + 1
	cnt := 0
	walkNLRI := func(x *packet.NLRI) bool {
		for ; x != nil; x = x.Next {
			if cnt++; cnt > limit {
				return false
			}
		}
		return true
	}
	switch b := m.Body.(type) {
	case *packet.BGPUpdate:
		if b == nil {
			return "typed nil *BGPUpdate body"
		}
		if !walkNLRI(b.WithdrawnRoutes) || !walkNLRI(b.NLRI) {
			return "NLRI list longer than the input (or a cycle)"
		}
		for pa := b.PathAttributes; pa != nil; pa = pa.Next {
			if cnt++; cnt > limit {
				return "attribute list longer than the input (or a cycle)"
			}
			switch v := pa.Value.(type) {
			case packet.MultiProtocolReachNLRI:
				if !walkNLRI(v.NLRI) {
					return "MP_REACH NLRI list longer than the input (or a cycle)"
				}
			case packet.MultiProtocolUnreachNLRI:
				if !walkNLRI(v.NLRI) {
					return "MP_UNREACH NLRI list longer than the input (or a cycle)"
				}
			}
		}
	case *packet.BGPOpen:
		if b == nil {
			return "typed nil *BGPOpen body"
		}
		for _, p := range b.OptParams {
			if caps, ok := p.Value.(packet.Capabilities); ok {
				cnt += len(caps)
			}
			cnt++
		}
		if cnt > limit {
			return "more parameters/capabilities than input bytes"
		}
	case *packet.BGPNotification:
		if b == nil {
			return "typed nil *BGPNotification body"
		}
	case nil:
		if m.Header.Type != packet.KeepaliveMsg {
			return fmt.Sprintf("nil body for message type %d", m.Header.Type)
		}
	}
	return ""
}

func measure(in []byte, opt packet.DecodeOptions) uint64 {
	best := ^uint64(0)
	for i := 0; i < 2; i++ {
		buf := bytes.NewBuffer(append([]byte(nil), in...))
		runtime.ReadMemStats(&m0)
		func() {
			defer func() { _ = recover() }()
			_, _ = packet.Decode(buf, &opt)
		}()
		runtime.ReadMemStats(&m1)
		if d := m1.TotalAlloc - m0.TotalAlloc; d < best {
			best = d
		}
	}
	return best
}

func repoCorpus() [][]byte {
	var out [][]byte
	for _, d := range []string{"repocorpus", "/verif/fuzz/bgpdecode/repocorpus"} {
		es, err := os.ReadDir(d)
		if err != nil {
			continue
		}
		var names []string
		for _, e := range es {
			if !e.IsDir() {
				names = append(names, e.Name())
			}
		}
		sort.Strings(names)
		for _, n := range names {
			if b, err := os.ReadFile(filepath.Join(d, n)); err == nil {
				out = append(out, b)
			}
		}
		if len(out) > 0 {
			break
		}
	}
	return out
}

func FuzzC16Decode(f *testing.F) {
	for i, s := range kit.BGPSeedMessages() {
		f.Add(byte(i), s)
		f.Add(byte(15), s)
	}
	for i, s := range repoCorpus() {
		f.Add(byte(i), s)
	}
	f.Fuzz(func(t *testing.T, ob byte, in []byte) {
		opt := options(ob)
		msg, err, p, stack := decodeOnce(in, opt)
		if p != nil {
			t.Fatalf("PANIC in packet.Decode (options %+v): %v\ninput hex: %s\n%s", opt, p, hex.EncodeToString(in), stack)
		}
		if (msg != nil) == (err != nil) {
			t.Fatalf("packet.Decode (options %+v) returned msg=%v err=%v: want exactly one\ninput hex: %s", opt, msg, err, hex.EncodeToString(in))
		}
		if msg != nil {
			if s := walk(msg, len(in)); s != "" {
				t.Fatalf("packet.Decode (options %+v): %s\ninput hex: %s", opt, s, hex.EncodeToString(in))
			}
		}
		// allocation bound on a deterministic 1/8 sample of the inputs
		h := fnv.New32a()
		h.Write(in)
		if h.Sum32()%8 == 0 {
			if got, bound := measure(in, opt), uint64(allocBase+allocPerByte*len(in)); got > bound {
				t.Fatalf("packet.Decode (options %+v) allocated %d bytes for %d input bytes; bound %d\ninput hex: %s", opt, got, len(in), bound, hex.EncodeToString(in))
			}
		}
	})
}

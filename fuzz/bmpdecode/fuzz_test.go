// Native fuzz target for C27 (thorough tier): the exported BMP message decoder.
//
// Domain: every byte string a router session can hand to packet.Decode. The
// receiver frames the stream by the 4-byte length of the common header and
// passes exactly that many bytes, so the harness writes len(data) into the
// length field before calling Decode (the only precondition callers keep).
// Oracle: no panic (the fuzzer reports it) and heap allocation linear in the
// input: TotalAlloc delta <= 1 MiB + 256 bytes per input byte... plus one
// 64 KiB TLV buffer (16-bit TLV length).
package bmpdecode

import (
	"encoding/binary"
	"runtime"
	"testing"

	"github.com/bio-routing/bio-rd/protocols/bmp/packet"
)

func hdr(typ uint8, body []byte) []byte {
	m := []byte{3, 0, 0, 0, 0, typ}
	m = append(m, body...)
	binary.BigEndian.PutUint32(m[1:5], uint32(len(m)))
	return m
}

func pph() []byte {
	p := make([]byte, 42)
	p[25] = 10
	p[29] = 1    // peer address 10.0.0.1
	p[33] = 0xfd // peer AS
	p[37] = 1    // BGP ID
	return p
}

func open(as byte) []byte {
	m := make([]byte, 16, 29)
	for i := range m {
		m[i] = 0xff
	}
	return append(m, 0, 29, 1, 4, 0, as, 0, 90, 1, 0, 0, as, 0)
}

func cat(parts ...[]byte) []byte {
	var out []byte
	for _, p := range parts {
		out = append(out, p...)
	}
	return out
}

func FuzzVerifC27BMPDecode(f *testing.F) {
	f.Add(hdr(4, []byte{0, 2, 0, 2, 'r', '1', 0, 1, 0, 0}))
	f.Add(hdr(5, []byte{0, 1, 0, 2, 0, 1}))
	f.Add(hdr(5, []byte{0, 1, 0, 0}))
	f.Add(hdr(3, cat(pph(), make([]byte, 16), []byte{0, 179, 0x9c, 0x40}, open(100), open(0xfd))))
	f.Add(hdr(3, cat(pph(), make([]byte, 16), []byte{0, 179, 0x9c, 0x40}, open(100), open(0xfd), []byte{0, 0, 0, 1, 'x'})))
	f.Add(hdr(2, cat(pph(), []byte{4})))
	f.Add(hdr(2, cat(pph(), []byte{1, 0xff, 0xff})))
	f.Add(hdr(1, cat(pph(), []byte{0, 0, 0, 2, 0, 0, 0, 4, 0, 0, 0, 9, 0, 7, 0, 8, 0, 0, 0, 0, 0, 0, 0, 1})))
	f.Add(hdr(1, cat(pph(), []byte{0xff, 0xff, 0xff, 0xff})))
	f.Add(hdr(0, cat(pph(), open(1)[:16], []byte{0, 23, 2, 0, 0, 0, 0})))
	f.Add(hdr(6, cat(pph(), []byte{0, 0, 0, 2, 1, 2, 0, 1, 0, 2, 0, 1})))
	f.Add([]byte{3, 0, 0, 0, 6, 9})
	f.Add([]byte{})

	f.Fuzz(func(t *testing.T, data []byte) {
		if len(data) > 1<<16 {
			return
		}
		msg := append([]byte(nil), data...)
		if len(msg) >= 5 {
			binary.BigEndian.PutUint32(msg[1:5], uint32(len(msg)))
		}
		var before, after runtime.MemStats
		runtime.ReadMemStats(&before)
		m, err := packet.Decode(msg)
		runtime.ReadMemStats(&after)
		if err == nil && m == nil {
			t.Fatalf("Decode returned neither a message nor an error")
		}
		if err == nil {
			_ = m.MsgType()
		}
		budget := uint64(1<<20) + uint64(64<<10) + 256*uint64(len(msg))
		if d := after.TotalAlloc - before.TotalAlloc; d > budget {
			t.Fatalf("Decode allocated %d bytes for a %d-byte message (budget %d)", d, len(msg), budget)
		}
	})
}

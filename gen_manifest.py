#!/usr/bin/env python3
"""Regenerates MANIFEST.json from checks_config.PROPS (claimed checks) and
properties.jsonl (everything else goes to not_applicable with a reason)."""
import json, os, sys
sys.path.insert(0, os.path.dirname(os.path.abspath(__file__)))
from checks_config import PROPS, NOT_APPLICABLE

V = os.path.dirname(os.path.abspath(__file__))
ids = [json.loads(l)["id"] for l in open(os.path.join(V, "properties.jsonl"))]
# only integrated (reviewed, stable) checks are claimed
READY = set(open(os.path.join(V, "config", "ready.txt")).read().split())
PROPS = {k: v for k, v in PROPS.items() if k in READY}
checks = []
for pid in ids:
    if pid not in PROPS:
        continue
    c = PROPS[pid]
    checks.append({
        "property_id": pid,
        "quick_cmd": "./check %s --tier quick" % pid,
        "thorough_cmd": "./check %s --tier thorough" % pid,
        "evidence_file": "/verif/evidence/%s.json" % pid,
        "replay_cmd_template": "./check %s --replay {path}" % pid,
        "engine": "check",
        "level_claimed": {
            "category": "exploration",
            "text": c.get("level_text", ""),
            "design_ref": "DESIGN.md §2 %s" % pid,
        },
        "level_note": c.get("level_note", "; ".join(c.get("assumptions", []))),
        "technique": c.get("technique", "property-based testing (rapid) against an explicit oracle"),
    })
na = []
for pid in ids:
    if pid in PROPS:
        continue
    na.append({"property_id": pid, "reason": NOT_APPLICABLE.get(pid, "check not built yet in this round; see DESIGN.md §2 for the planned generator and oracle")})
m = {
    "version": 1,
    "setup_cmd": "./check --setup",
    "hooks": {
        "guard": "verif",
        "enable": "harness tests carry //go:build verif and are injected at compile time with `go test -overlay -modfile -tags verif` (see ./check); no hook code is committed in /repo",
        "baseline_off_cmd": "cd /repo && go test -mod=mod -json -vet=off -count=1 -timeout 25m ./...",
        "source_commits": [],
        "add_only": True,
    },
    "engines": [{
        "name": "check",
        "path": "/verif/check",
        "serves_properties": [c["property_id"] for c in checks],
        "kind_free_text": "python driver: builds in-package rapid/fuzz harness tests against /repo's working tree via go test -overlay, shards them, merges evidence, applies known_findings.txt",
    }],
    "checks": checks,
    "not_applicable": na,
    "notes": "Property-based testing / fuzzing only. Exit 2 from ./check means inconclusive (build failure, deadline), never a violation.",
}
json.dump(m, open(os.path.join(V, "MANIFEST.json"), "w"), indent=1)
print("claimed", len(checks), "not claimed", len(na))
